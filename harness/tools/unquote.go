//go:build ignore

// unquote prints the JSON encoding of the Go string literal given as argument.
package main

import (
	"encoding/json"
	"fmt"
	"os"
	"strconv"
)

func main() {
	s, err := strconv.Unquote(os.Args[1])
	if err != nil {
		s = os.Args[1]
	}
	b, _ := json.Marshal(s)
	fmt.Println(string(b))
}
