package model

import (
	"regexp"
	"strings"
	"sync"
)

// A transcription of org.apache.maven.artifact.versioning.ComparableVersion
// (Maven 3.8.7, i.e. including MNG-6964 and MNG-7559, checked against the
// bytecode of the installed maven-artifact jar): nested list items, '-' and
// digit/letter transitions open a sub-list, a string qualifier that ends the
// version or is directly followed by a digit opens one too (.X is treated as
// -X), trailing null items are trimmed per list.

type mvItem interface {
	kind() int // 0 int, 1 string, 2 list
	isNull() bool
}

type mvInt struct {
	v   string // digits without leading zeros ("" = 0)
	cls int    // 0 IntItem, 1 LongItem, 2 BigIntegerItem (by length, as Maven does)
}
type mvStr struct{ v string }
type mvList struct{ items []mvItem }

func (mvInt) kind() int        { return 0 }
func (mvStr) kind() int        { return 1 }
func (*mvList) kind() int      { return 2 }
func (i mvInt) isNull() bool   { return i.v == "" }
func (s mvStr) isNull() bool   { return mvQual(s.v) == "5" }
func (l *mvList) isNull() bool { return len(l.items) == 0 }

var mvQualifiers = []string{"alpha", "beta", "milestone", "rc", "snapshot", "", "sp"}

// mvQual is comparableQualifier(): the index for known qualifiers, "7-<q>" otherwise.
func mvQual(q string) string {
	for i, k := range mvQualifiers {
		if k == q {
			return string(rune('0' + i))
		}
	}
	return "7-" + q
}

func newMvStr(v string, followedByDigit bool) mvStr {
	return newMvStrA(v, followedByDigit, false)
}

func newMvStrA(v string, followedByDigit, aliasAlways bool) mvStr {
	if (followedByDigit || aliasAlways) && len(v) == 1 {
		switch v {
		case "a":
			v = "alpha"
		case "b":
			v = "beta"
		case "m":
			v = "milestone"
		}
	}
	switch v {
	case "ga", "final", "release":
		v = ""
	case "cr":
		v = "rc"
	}
	return mvStr{v}
}

func mvParseItem(isDigit bool, buf string, aliasAlways bool) mvItem {
	if isDigit {
		// stripLeadingZeroes() returns an all-zero buffer unchanged, so a long
		// run of zeros becomes a Long/BigInteger item with value 0
		n := len(strings.TrimLeft(buf, "0"))
		if n == 0 {
			n = len(buf)
		}
		cls := 0
		if n > 18 {
			cls = 2
		} else if n > 9 {
			cls = 1
		}
		return mvInt{strings.TrimLeft(buf, "0"), cls}
	}
	return newMvStrA(buf, false, aliasAlways)
}

func (l *mvList) normalize() {
	for i := len(l.items) - 1; i >= 0; i-- {
		last := l.items[i]
		if last.isNull() {
			l.items = append(l.items[:i], l.items[i+1:]...)
		} else if last.kind() != 2 {
			break
		}
	}
}

func mvParse(version string, aliasAlways bool) *mvList {
	version = strings.ToLower(version)
	root := &mvList{}
	list := root
	stack := []*mvList{root}
	isDigit := false
	start := 0
	push := func() {
		nl := &mvList{}
		list.items = append(list.items, nl)
		list = nl
		stack = append(stack, nl)
	}
	for i := 0; i < len(version); i++ {
		c := version[i]
		switch {
		case c == '.':
			if i == start {
				list.items = append(list.items, mvInt{"", 0})
			} else {
				list.items = append(list.items, mvParseItem(isDigit, version[start:i], aliasAlways))
			}
			start = i + 1
		case c == '-':
			if i == start {
				list.items = append(list.items, mvInt{"", 0})
			} else {
				list.items = append(list.items, mvParseItem(isDigit, version[start:i], aliasAlways))
			}
			start = i + 1
			push()
		case c >= '0' && c <= '9':
			if !isDigit && i > start {
				// MNG-7559 (3.8.7): treat .X as -X for any string qualifier X
				if len(list.items) > 0 {
					push()
				}
				list.items = append(list.items, newMvStrA(version[start:i], true, aliasAlways))
				start = i
				push()
			}
			isDigit = true
		default:
			if isDigit && i > start {
				list.items = append(list.items, mvParseItem(true, version[start:i], aliasAlways))
				start = i
				push()
			}
			isDigit = false
		}
	}
	if len(version) > start {
		if !isDigit && len(list.items) > 0 {
			push()
		}
		list.items = append(list.items, mvParseItem(isDigit, version[start:], aliasAlways))
	}
	for k := len(stack) - 1; k >= 0; k-- {
		stack[k].normalize()
	}
	return root
}

// mvCmp is Item.compareTo; b may be nil.
func mvCmp(a, b mvItem) int {
	switch x := a.(type) {
	case mvInt:
		if b == nil {
			if x.v == "" {
				return 0
			}
			return 1
		}
		switch y := b.(type) {
		case mvInt:
			if x.cls != y.cls {
				return sgn(x.cls - y.cls)
			}
			return CmpNumStr(x.v, y.v)
		case mvStr:
			return 1
		default:
			return 1
		}
	case mvStr:
		if b == nil {
			return sgn(strings.Compare(mvQual(x.v), "5"))
		}
		switch y := b.(type) {
		case mvInt:
			return -1
		case mvStr:
			return sgn(strings.Compare(mvQual(x.v), mvQual(y.v)))
		default:
			return -1
		}
	case *mvList:
		if b == nil {
			for _, it := range x.items {
				if r := mvCmp(it, nil); r != 0 {
					return r
				}
			}
			return 0
		}
		switch y := b.(type) {
		case mvInt:
			return -1
		case mvStr:
			return 1
		case *mvList:
			for i := 0; i < len(x.items) || i < len(y.items); i++ {
				var l, r mvItem
				if i < len(x.items) {
					l = x.items[i]
				}
				if i < len(y.items) {
					r = y.items[i]
				}
				var res int
				if l == nil {
					res = -mvCmp(r, nil)
				} else {
					res = mvCmp(l, r)
				}
				if res != 0 {
					return res
				}
			}
			return 0
		}
	}
	panic("unreachable")
}

// MavenCompare orders two version strings as ComparableVersion.compareTo does.
func MavenCompare(a, b string) int {
	return sgn(mvCmp(mvParsed(a, false), mvParsed(b, false)))
}

var (
	mvCacheMu sync.Mutex
	mvCache   = map[mvKey]*mvList{}
)

// mvKey: the mode is part of the key as a field, not as a prefix of the text (inputs may contain any byte).
type mvKey struct {
	s     string
	alias bool
}

// mvParsed memoises mvParse (parsed trees are never modified after normalize).
func mvParsed(s string, aliasAlways bool) *mvList {
	key := mvKey{s, aliasAlways}
	mvCacheMu.Lock()
	defer mvCacheMu.Unlock()
	if l, ok := mvCache[key]; ok {
		return l
	}
	if len(mvCache) > 100000 {
		mvCache = map[mvKey]*mvList{}
	}
	l := mvParse(strings.TrimSpace(s), aliasAlways)
	mvCache[key] = l
	return l
}

// MavenCompareAliasAlways is MavenCompare with the single-letter aliases a, b
// and m expanded even when no digit follows (go-univers' documented reading,
// pinned by its suite; outside C12's claim).
func MavenCompareAliasAlways(a, b string) int {
	return sgn(mvCmp(mvParsed(a, true), mvParsed(b, true)))
}

var mvConv = regexp.MustCompile(`^[0-9]+(?:\.[0-9]+){0,3}(?:([.-])([A-Za-z]+)(?:([.-]?)([0-9]+))?|-[0-9]+)?$`)

var mvZeroRun = regexp.MustCompile(`(^|[^0-9])0{10,}($|[^0-9])`)

// MavenConventional reports whether s has the conventional shape claimed by
// C12: N(.N){0,3} plus at most one group (qualifier, qualifier with number, or
// "-N"); bare single-letter aliases (a/b/m not directly followed by a digit)
// and ga/final/release followed by a number are not claimed.
func MavenConventional(s string) bool {
	m := mvConv.FindStringSubmatch(s)
	if m == nil {
		return false
	}
	// a run of ten or more zeros is not conventional: ComparableVersion keeps it at full length and makes it a
	// LongItem / BigIntegerItem, which it orders above every int-sized number ("0000000000.1" > "1"); go-univers
	// reads it as 0 and C12 does not claim that quirk
	if mvZeroRun.MatchString(s) {
		return false
	}
	w := strings.ToLower(m[2])
	if w == "" {
		return true
	}
	if w == "a" || w == "b" || w == "m" {
		return m[4] != "" && m[3] == ""
	}
	if (w == "ga" || w == "final" || w == "release") && m[4] != "" {
		return false
	}
	return true
}
