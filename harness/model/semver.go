package model

import (
	"regexp"
	"strings"
)

// SemverParse splits "[=][v]N(.N){0,3}[-pre][+build]" into numeric
// components (padded to 4) and pre-release identifiers.
func SemverParse(s string) (nums []string, pre []string) {
	s = strings.TrimSpace(s)
	s = strings.TrimPrefix(s, "=")
	s = strings.TrimPrefix(s, "v")
	s = strings.TrimPrefix(s, "=")
	s = strings.TrimPrefix(s, "v")
	if k := strings.Index(s, "+"); k >= 0 {
		s = s[:k]
	}
	core := s
	if k := strings.Index(s, "-"); k >= 0 {
		core = s[:k]
		pre = strings.Split(s[k+1:], ".")
	}
	nums = strings.Split(core, ".")
	for len(nums) < 4 {
		nums = append(nums, "0")
	}
	return
}

// SemverCompare implements SemVer 2.0.0 section 11 (with NuGet's optional
// fourth numeric component); build metadata is ignored.
func SemverCompare(a, b string) int {
	n1, p1 := SemverParse(a)
	n2, p2 := SemverParse(b)
	for i := 0; i < 4; i++ {
		if c := CmpNumStr(n1[i], n2[i]); c != 0 {
			return c
		}
	}
	if len(p1) == 0 && len(p2) == 0 {
		return 0
	}
	if len(p1) == 0 {
		return 1
	}
	if len(p2) == 0 {
		return -1
	}
	for i := 0; i < len(p1) && i < len(p2); i++ {
		x, y := p1[i], p2[i]
		dx, dy := allDigits(x), allDigits(y)
		switch {
		case dx && dy:
			if c := CmpNumStr(x, y); c != 0 {
				return c
			}
		case dx:
			return -1
		case dy:
			return 1
		default:
			if c := strings.Compare(x, y); c != 0 {
				return sgn(c)
			}
		}
	}
	return sgn(len(p1) - len(p2))
}

// the regular expression suggested by semver.org for SemVer 2.0.0
var semverOfficial = regexp.MustCompile(`^(0|[1-9]\d*)\.(0|[1-9]\d*)\.(0|[1-9]\d*)(?:-((?:0|[1-9]\d*|\d*[a-zA-Z-][0-9a-zA-Z-]*)(?:\.(?:0|[1-9]\d*|\d*[a-zA-Z-][0-9a-zA-Z-]*))*))?(?:\+([0-9a-zA-Z-]+(?:\.[0-9a-zA-Z-]+)*))?$`)

// SemverValid reports whether s is a valid SemVer 2.0.0 version string.
func SemverValid(s string) bool { return semverOfficial.MatchString(s) }
