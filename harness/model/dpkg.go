package model

import "strings"

// dpkg's order(): digits 0, letters their ASCII value, '~' -1, end 0,
// everything else ASCII+256.
func dpkgOrder(c byte) int {
	switch {
	case isDig(c):
		return 0
	case isAl(c):
		return int(c)
	case c == '~':
		return -1
	case c == 0:
		return 0
	default:
		return int(c) + 256
	}
}

func at(s string, i int) byte {
	if i < len(s) {
		return s[i]
	}
	return 0
}

// DpkgVerrevcmp is a transcription of dpkg's verrevcmp().
func DpkgVerrevcmp(a, b string) int {
	i, j := 0, 0
	for i < len(a) || j < len(b) {
		firstDiff := 0
		for (i < len(a) && !isDig(a[i])) || (j < len(b) && !isDig(b[j])) {
			ac, bc := dpkgOrder(at(a, i)), dpkgOrder(at(b, j))
			if ac != bc {
				return sgn(ac - bc)
			}
			i++
			j++
		}
		for at(a, i) == '0' {
			i++
		}
		for at(b, j) == '0' {
			j++
		}
		for isDig(at(a, i)) && isDig(at(b, j)) {
			if firstDiff == 0 {
				firstDiff = int(a[i]) - int(b[j])
			}
			i++
			j++
		}
		if isDig(at(a, i)) {
			return 1
		}
		if isDig(at(b, j)) {
			return -1
		}
		if firstDiff != 0 {
			return sgn(firstDiff)
		}
	}
	return 0
}

// DpkgSplit splits [epoch:]upstream[-revision].
func DpkgSplit(s string) (epoch, upstream, revision string) {
	s = strings.TrimSpace(s)
	if k := strings.Index(s, ":"); k >= 0 {
		epoch, s = s[:k], s[k+1:]
	}
	if k := strings.LastIndex(s, "-"); k >= 0 {
		return epoch, s[:k], s[k+1:]
	}
	return epoch, s, ""
}

// DpkgValid reports whether dpkg itself accepts s (epoch numeric, upstream
// starts with a digit and uses [0-9A-Za-z.+~-], a present revision is
// non-empty and uses [0-9A-Za-z.+~]).
func DpkgValid(s string) bool {
	s = strings.TrimSpace(s)
	if s == "" {
		return false
	}
	e, u, r := DpkgSplit(s)
	if strings.Contains(s, ":") && !allDigits(e) {
		return false
	}
	if len(e) > 9 { // dpkg: epoch must fit an int
		return false
	}
	if u == "" || !isDig(u[0]) {
		return false
	}
	for i := 0; i < len(u); i++ {
		if c := u[i]; !(isAlnum(c) || c == '.' || c == '+' || c == '~' || c == '-') {
			return false
		}
	}
	rest := s
	if k := strings.Index(rest, ":"); k >= 0 {
		rest = rest[k+1:]
	}
	if strings.Contains(rest, "-") && r == "" {
		return false
	}
	for i := 0; i < len(r); i++ {
		if c := r[i]; !(isAlnum(c) || c == '.' || c == '+' || c == '~') {
			return false
		}
	}
	return true
}

// DpkgCompare orders two dpkg-valid version strings as dpkg --compare-versions does.
func DpkgCompare(a, b string) int {
	ea, ua, ra := DpkgSplit(a)
	eb, ub, rb := DpkgSplit(b)
	if c := CmpNumStr(ea, eb); c != 0 {
		return c
	}
	if c := DpkgVerrevcmp(ua, ub); c != 0 {
		return c
	}
	return DpkgVerrevcmp(ra, rb)
}
