package model

import (
	"regexp"
	"strings"
)

var apkRe = regexp.MustCompile(`^([0-9]+(?:\.[0-9]+)*)([a-z]?)((?:_(?:alpha|beta|pre|rc|cvs|svn|git|hg|p)[0-9]*)*)(-r[0-9]+)?$`)
var apkSuf = regexp.MustCompile(`_([a-z]+)([0-9]*)`)
var apkRank = map[string]int{"alpha": -4, "beta": -3, "pre": -2, "rc": -1, "cvs": 1, "svn": 2, "git": 3, "hg": 4, "p": 5}

type apkV struct {
	nums   []string
	letter string
	sufs   [][2]string
	rev    string
	hasRev bool
}

func apkParse(s string) (apkV, bool) {
	m := apkRe.FindStringSubmatch(s)
	if m == nil {
		return apkV{}, false
	}
	v := apkV{nums: strings.Split(m[1], "."), letter: m[2]}
	for _, n := range v.nums {
		if len(n) > 1 && n[0] == '0' {
			return apkV{}, false // leading zeros are not claimed
		}
	}
	for _, x := range apkSuf.FindAllStringSubmatch(m[3], -1) {
		v.sufs = append(v.sufs, [2]string{x[1], x[2]})
	}
	if m[4] != "" {
		v.rev, v.hasRev = m[4][2:], true
	}
	// component magnitudes beyond 2^31 are outside the quantifier (apk-tools itself rejects numbers it cannot hold);
	// suffix numbers and revisions (dates, timestamps) are claimed up to 18 digits
	for _, n := range v.nums {
		if len(n) > 10 || (len(n) == 10 && n > "2147483648") {
			return apkV{}, false
		}
	}
	runs := []string{v.rev}
	for _, x := range v.sufs {
		runs = append(runs, x[1])
	}
	for _, n := range runs {
		if len(strings.TrimLeft(n, "0")) > 18 || len(n) > 24 {
			return apkV{}, false
		}
	}
	return v, true
}

// ApkCompare orders two well-formed Alpine versions as apk-tools does.
// claimed=false when the pair is outside C14's domain (not well-formed,
// different component counts, leading zeros, -r0 against no revision).
func ApkCompare(a, b string) (int, bool) {
	x, ok1 := apkParse(a)
	y, ok2 := apkParse(b)
	if !ok1 || !ok2 || len(x.nums) != len(y.nums) {
		return 0, false
	}
	if x.hasRev != y.hasRev && CmpNumStr(x.rev+y.rev, "0") == 0 {
		return 0, false
	}
	for i := range x.nums {
		if c := CmpNumStr(x.nums[i], y.nums[i]); c != 0 {
			return c, true
		}
	}
	if x.letter != y.letter {
		return sgn(strings.Compare(x.letter, y.letter)), true // "" sorts first
	}
	n := len(x.sufs)
	if len(y.sufs) < n {
		n = len(y.sufs)
	}
	for i := 0; i < n; i++ {
		ra, rb := apkRank[x.sufs[i][0]], apkRank[y.sufs[i][0]]
		if ra != rb {
			return sgn(ra - rb), true
		}
		if c := CmpNumStr(x.sufs[i][1], y.sufs[i][1]); c != 0 {
			return c, true
		}
	}
	if len(x.sufs) > n {
		if apkRank[x.sufs[n][0]] < 0 {
			return -1, true
		}
		return 1, true
	}
	if len(y.sufs) > n {
		if apkRank[y.sufs[n][0]] < 0 {
			return 1, true
		}
		return -1, true
	}
	if x.hasRev != y.hasRev {
		if x.hasRev {
			return 1, true
		}
		return -1, true
	}
	return CmpNumStr(x.rev, y.rev), true
}
