package model

import (
	"strings"
)

// AlpmVercmp is a transcription of rpmvercmp() from pacman's
// lib/libalpm/version.c (no tilde/caret; separator lengths are compared).
func AlpmVercmp(a, b string) int {
	if a == b {
		return 0
	}
	one, two := 0, 0
	p1, p2 := 0, 0
	for one < len(a) && two < len(b) {
		for one < len(a) && !isAlnum(a[one]) {
			one++
		}
		for two < len(b) && !isAlnum(b[two]) {
			two++
		}
		if !(one < len(a) && two < len(b)) {
			break
		}
		if (one - p1) != (two - p2) {
			if (one - p1) < (two - p2) {
				return -1
			}
			return 1
		}
		p1, p2 = one, two
		isnum := false
		if isDig(a[p1]) {
			for p1 < len(a) && isDig(a[p1]) {
				p1++
			}
			for p2 < len(b) && isDig(b[p2]) {
				p2++
			}
			isnum = true
		} else {
			for p1 < len(a) && isAl(a[p1]) {
				p1++
			}
			for p2 < len(b) && isAl(b[p2]) {
				p2++
			}
		}
		s1, s2 := a[one:p1], b[two:p2]
		if len(s1) == 0 {
			return -1
		}
		if len(s2) == 0 {
			if isnum {
				return 1
			}
			return -1
		}
		if isnum {
			s1 = strings.TrimLeft(s1, "0")
			s2 = strings.TrimLeft(s2, "0")
			if len(s1) != len(s2) {
				return sgn(len(s1) - len(s2))
			}
		}
		if c := strings.Compare(s1, s2); c != 0 {
			return sgn(c)
		}
		one, two = p1, p2
	}
	if one >= len(a) && two >= len(b) {
		return 0
	}
	oneEmpty := one >= len(a)
	if (oneEmpty && !(two < len(b) && isAl(b[two]))) || (!oneEmpty && isAl(a[one])) {
		return -1
	}
	return 1
}

var alpmRel = func(s string) (string, string, bool) {
	// pkgrel: everything after the last hyphen when it consists of digits only
	k := strings.LastIndex(s, "-")
	if k >= 0 && k+1 < len(s) && allDigits(s[k+1:]) {
		return s[:k], s[k+1:], true
	}
	return s, "", false
}

// AlpmCompare orders [epoch:]pkgver[-pkgrel] as vercmp(8) does; a missing
// pkgrel compares equal to any pkgrel.
func AlpmCompare(a, b string) int {
	split := func(s string) (e, v, r string, hasR bool) {
		s = strings.TrimSpace(s)
		if k := strings.Index(s, ":"); k >= 0 {
			e, s = s[:k], s[k+1:]
		}
		v, r, hasR = alpmRel(s)
		return
	}
	e1, v1, r1, h1 := split(a)
	e2, v2, r2, h2 := split(b)
	if c := CmpNumStr(e1, e2); c != 0 {
		return c
	}
	if c := AlpmVercmp(v1, v2); c != 0 {
		return c
	}
	if h1 && h2 {
		return CmpNumStr(r1, r2)
	}
	return 0
}
