package model

import (
	"fmt"
	"strconv"
	"strings"
)

// Interval is the documented meaning of a shorthand range construct, written
// with version strings of the ecosystem itself (membership is then decided
// with the ecosystem's own Compare). Empty Lo/Hi mean unbounded.
type Interval struct {
	Lo, Hi       string
	LoInc, HiInc bool
	Complement   bool // the construct denotes everything outside [Lo,Hi)
	All          bool // the construct contains every version
}

// Shorthand describes one generated construct.
type Shorthand struct {
	Text string
	Iv   Interval
	// Wildcard: the lower bound is a wildcard expansion (X.*): probes that are
	// pre-releases of the lower bound are not claimed.
	Wildcard bool
}

func atoi(s string) int {
	n, _ := strconv.Atoi(s)
	return n
}

func itoa(n int) string { return strconv.Itoa(n) }

// pad3 pads numeric parts with zeros to three components.
func pad3(p []string) []string {
	out := append([]string{}, p...)
	for len(out) < 3 {
		out = append(out, "0")
	}
	return out
}

func join(p ...string) string { return strings.Join(p, ".") }

// caretUpper: bump the first non-zero of X.Y.Z (npm/cargo/composer rule);
// given explicitly specified parts (1-3) for partial forms.
func caretUpper(parts []string) []string {
	p := pad3(parts)
	x, y, z := atoi(p[0]), atoi(p[1]), atoi(p[2])
	switch {
	case x > 0:
		return []string{itoa(x + 1), "0", "0"}
	case len(parts) == 1: // ^0
		return []string{"1", "0", "0"}
	case y > 0:
		return []string{"0", itoa(y + 1), "0"}
	case len(parts) == 2: // ^0.0
		return []string{"0", "1", "0"}
	default:
		return []string{"0", "0", itoa(z + 1)}
	}
}

// MakeShorthand builds the construct `kind` of ecosystem eco from args and
// returns its text and documented interval. ok=false for unknown combinations.
//
// args are numeric parts (and for some kinds a pre-release/suffix string last,
// possibly empty).
func MakeShorthand(eco, kind string, args []string) (Shorthand, bool) {
	var s Shorthand
	switch eco + "/" + kind {
	// ------------------------------------------------------------ npm
	case "npm/caret", "npm/tilde": // args: X Y Z pre
		if len(args) != 4 {
			return s, false
		}
		core := join(args[0], args[1], args[2])
		base := core
		if args[3] != "" {
			base += "-" + args[3]
		}
		var up []string
		if kind == "caret" {
			up = caretUpper(args[:3])
			s.Text = "^" + base
		} else {
			up = []string{args[0], itoa(atoi(args[1]) + 1), "0"}
			s.Text = "~" + base
		}
		s.Iv = Interval{Lo: base, LoInc: true, Hi: join(up...) + "-0"}
	case "npm/x1": // args: X char
		s.Text = args[0] + "." + args[1]
		s.Iv = Interval{Lo: join(args[0], "0", "0"), LoInc: true, Hi: join(itoa(atoi(args[0])+1), "0", "0") + "-0"}
		s.Wildcard = true
	case "npm/x2": // args: X Y char
		s.Text = args[0] + "." + args[1] + "." + args[2]
		s.Iv = Interval{Lo: join(args[0], args[1], "0"), LoInc: true, Hi: join(args[0], itoa(atoi(args[1])+1), "0") + "-0"}
		s.Wildcard = true
	case "npm/star", "cargo/star": // documented as >=0.0.0
		s.Text = "*"
		s.Iv = Interval{Lo: "0.0.0", LoInc: true}
		s.Wildcard = true
	case "composer/star":
		s.Text = "*"
		s.Iv = Interval{All: true}
	case "npm/hyphen", "composer/hyphen": // args: A B (full versions)
		s.Text = args[0] + " - " + args[1]
		s.Iv = Interval{Lo: args[0], LoInc: true, Hi: args[1], HiInc: true}
	// ------------------------------------------------------------ cargo
	case "cargo/caret": // args: parts (1-3) + pre (last, maybe "")
		parts, pre := args[:len(args)-1], args[len(args)-1]
		if len(parts) < 1 || len(parts) > 3 || (pre != "" && len(parts) != 3) {
			return s, false
		}
		base := strings.Join(parts, ".")
		lo := join(pad3(parts)...)
		if pre != "" {
			base += "-" + pre
			lo += "-" + pre
		}
		s.Text = "^" + base
		s.Iv = Interval{Lo: lo, LoInc: true, Hi: join(caretUpper(parts)...)}
	case "cargo/tilde": // args: parts (1-3) + pre
		parts, pre := args[:len(args)-1], args[len(args)-1]
		if len(parts) < 1 || len(parts) > 3 || (pre != "" && len(parts) != 3) {
			return s, false
		}
		base := strings.Join(parts, ".")
		lo := join(pad3(parts)...)
		if pre != "" {
			base += "-" + pre
			lo += "-" + pre
		}
		var up []string
		if len(parts) == 1 {
			up = []string{itoa(atoi(parts[0]) + 1), "0", "0"}
		} else {
			up = []string{parts[0], itoa(atoi(parts[1]) + 1), "0"}
		}
		s.Text = "~" + base
		s.Iv = Interval{Lo: lo, LoInc: true, Hi: join(up...)}
	case "cargo/wild1": // args: X
		s.Text = args[0] + ".*"
		s.Iv = Interval{Lo: join(args[0], "0", "0"), LoInc: true, Hi: join(itoa(atoi(args[0])+1), "0", "0")}
		s.Wildcard = true
	case "cargo/wild2": // args: X Y
		s.Text = args[0] + "." + args[1] + ".*"
		s.Iv = Interval{Lo: join(args[0], args[1], "0"), LoInc: true, Hi: join(args[0], itoa(atoi(args[1])+1), "0")}
		s.Wildcard = true
	// ------------------------------------------------------------ composer
	case "composer/caret": // args: parts (2-3)
		if len(args) < 2 || len(args) > 3 {
			return s, false
		}
		s.Text = "^" + strings.Join(args, ".")
		s.Iv = Interval{Lo: join(pad3(args)...), LoInc: true, Hi: join(caretUpper(pad3(args))...)}
	case "composer/tilde": // args: parts (2-3)
		if len(args) < 2 || len(args) > 3 {
			return s, false
		}
		s.Text = "~" + strings.Join(args, ".")
		var up []string
		if len(args) == 2 {
			up = []string{itoa(atoi(args[0]) + 1), "0", "0"}
		} else {
			up = []string{args[0], itoa(atoi(args[1]) + 1), "0"}
		}
		s.Iv = Interval{Lo: join(pad3(args)...), LoInc: true, Hi: join(up...)}
	case "composer/wild1": // args: X char
		s.Text = args[0] + "." + args[1]
		s.Iv = Interval{Lo: join(args[0], "0", "0"), LoInc: true, Hi: join(itoa(atoi(args[0])+1), "0", "0")}
		s.Wildcard = true
	case "composer/wild2": // args: X Y char
		s.Text = args[0] + "." + args[1] + "." + args[2]
		s.Iv = Interval{Lo: join(args[0], args[1], "0"), LoInc: true, Hi: join(args[0], itoa(atoi(args[1])+1), "0")}
		s.Wildcard = true
	// ------------------------------------------------------------ conan
	case "conan/tilde": // args: parts (1-3)
		if len(args) < 1 || len(args) > 3 {
			return s, false
		}
		s.Text = "~" + strings.Join(args, ".")
		var up string
		if len(args) == 1 {
			up = itoa(atoi(args[0]) + 1)
		} else {
			up = join(args[0], itoa(atoi(args[1])+1))
		}
		s.Iv = Interval{Lo: strings.Join(args, "."), LoInc: true, Hi: up}
	case "conan/caret": // args: parts (1-3)
		if len(args) < 1 || len(args) > 3 {
			return s, false
		}
		allZero := true
		for _, p := range args {
			if atoi(p) != 0 {
				allZero = false
			}
		}
		if allZero { // ^0, ^0.0, ^0.0.0: Conan itself has no upper bound to compute
			return s, false
		}
		s.Text = "^" + strings.Join(args, ".")
		// bump the first non-zero component; all zero: bump the last given one
		up := []string{}
		done := false
		for i, p := range args {
			if atoi(p) > 0 || i == len(args)-1 {
				up = append(up, itoa(atoi(p)+1))
				done = true
				break
			}
			up = append(up, p)
		}
		_ = done
		s.Iv = Interval{Lo: strings.Join(args, "."), LoInc: true, Hi: strings.Join(up, ".")}
	// ------------------------------------------------------------ gem / hex
	case "gem/pess": // args: parts (1-4) + pre (last, maybe ""), rendered ".pre" after the parts
		parts, pre := args[:len(args)-1], args[len(args)-1]
		if len(parts) < 1 || len(parts) > 4 {
			return s, false
		}
		base := strings.Join(parts, ".")
		if strings.HasPrefix(pre, "-") {
			base += pre // RubyGems reads '-' as '.pre.'
		} else if pre != "" {
			base += "." + pre
		}
		s.Text = "~> " + base
		up := append([]string{}, parts...)
		if len(up) > 1 {
			up = up[:len(up)-1]
		}
		up[len(up)-1] = itoa(atoi(up[len(up)-1]) + 1)
		s.Iv = Interval{Lo: base, LoInc: true, Hi: strings.Join(up, ".")}
	case "hex/pess": // args: parts (2-3) + pre (only with 3 parts)
		parts, pre := args[:len(args)-1], args[len(args)-1]
		if len(parts) < 2 || len(parts) > 3 || (pre != "" && len(parts) != 3) {
			return s, false
		}
		base := strings.Join(parts, ".")
		lo := join(pad3(parts)...)
		if pre != "" {
			base += "-" + pre
			lo += "-" + pre
		}
		s.Text = "~>" + base
		var up []string
		if len(parts) == 2 {
			up = []string{itoa(atoi(parts[0]) + 1), "0", "0"}
		} else {
			up = []string{parts[0], itoa(atoi(parts[1]) + 1), "0"}
		}
		s.Iv = Interval{Lo: lo, LoInc: true, Hi: join(up...)}
	// ------------------------------------------------------------ pypi
	case "pypi/compat": // args: release parts (2-4) + suffix (e.g. "", ".post3", "a4", "rc1")
		parts, suf := args[:len(args)-1], args[len(args)-1]
		if len(parts) < 2 || len(parts) > 4 {
			return s, false
		}
		base := strings.Join(parts, ".") + suf
		s.Text = "~=" + base
		up := append([]string{}, parts[:len(parts)-1]...)
		up[len(up)-1] = itoa(atoi(up[len(up)-1]) + 1)
		s.Iv = Interval{Lo: base, LoInc: true, Hi: strings.Join(up, ".")}
	case "pypi/compat-epoch": // args: epoch + release parts (2-4) + suffix
		if len(args) < 4 {
			return s, false
		}
		inner, ok := MakeShorthand("pypi", "compat", args[1:])
		if !ok || atoi(args[0]) < 1 {
			return s, false
		}
		ep := args[0] + "!"
		s.Text = "~=" + ep + strings.TrimPrefix(inner.Text, "~=")
		s.Iv = Interval{Lo: ep + inner.Iv.Lo, LoInc: true, Hi: ep + inner.Iv.Hi}
	case "pypi/prefix-epoch": // args: epoch + parts (1-3)
		if len(args) < 2 {
			return s, false
		}
		inner, ok := MakeShorthand("pypi", "prefix", args[1:])
		if !ok || atoi(args[0]) < 1 {
			return s, false
		}
		ep := args[0] + "!"
		s.Text = "==" + ep + strings.TrimPrefix(inner.Text, "==")
		s.Iv = Interval{Lo: ep + inner.Iv.Lo, LoInc: true, Hi: ep + inner.Iv.Hi}
		s.Wildcard = true
	case "pypi/prefix", "pypi/notprefix": // args: parts (1-3)
		if len(args) < 1 || len(args) > 3 {
			return s, false
		}
		v := strings.Join(args, ".")
		up := append([]string{}, args...)
		up[len(up)-1] = itoa(atoi(up[len(up)-1]) + 1)
		s.Iv = Interval{Lo: v, LoInc: true, Hi: strings.Join(up, ".")}
		if kind == "prefix" {
			s.Text = "==" + v + ".*"
		} else {
			s.Text = "!=" + v + ".*"
			s.Iv.Complement = true
		}
		s.Wildcard = true
	// ------------------------------------------------------------ nuget / maven
	case "nuget/bracket", "maven/bracket": // args: open lo hi close
		if len(args) != 4 || (args[1] == "" && args[2] == "") {
			return s, false
		}
		// an unbounded side is documented with a parenthesis only: (,1.0] and [1.0,)
		if (args[1] == "" && args[0] != "(") || (args[2] == "" && args[3] != ")") {
			return s, false
		}
		s.Text = args[0] + args[1] + "," + args[2] + args[3]
		s.Iv = Interval{Lo: args[1], LoInc: args[0] == "[", Hi: args[2], HiInc: args[3] == "]"}
	case "nuget/exact", "maven/exact": // args: v
		s.Text = "[" + args[0] + "]"
		s.Iv = Interval{Lo: args[0], LoInc: true, Hi: args[0], HiInc: true}
	case "nuget/bare": // args: v  (minimum version, inclusive)
		s.Text = args[0]
		s.Iv = Interval{Lo: args[0], LoInc: true}
	default:
		return s, false
	}
	return s, true
}

// Contains evaluates the interval with the given comparison against a bound.
func (iv Interval) Contains(cmpTo func(bound string) (int, error)) (bool, error) {
	if iv.All {
		return true, nil
	}
	in := true
	if iv.Lo != "" {
		c, err := cmpTo(iv.Lo)
		if err != nil {
			return false, fmt.Errorf("lower bound %q: %w", iv.Lo, err)
		}
		if c < 0 || (c == 0 && !iv.LoInc) {
			in = false
		}
	}
	if iv.Hi != "" {
		c, err := cmpTo(iv.Hi)
		if err != nil {
			return false, fmt.Errorf("upper bound %q: %w", iv.Hi, err)
		}
		if c > 0 || (c == 0 && !iv.HiInc) {
			in = false
		}
	}
	if iv.Complement {
		return !in, nil
	}
	return in, nil
}
