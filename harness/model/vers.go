package model

import (
	"sort"
	"strings"

	"verifharness/eco"
)

// VC is one VERS constraint.
type VC struct {
	Op string `json:"op"`
	V  string `json:"v"`
}

// VersText renders vers:<scheme>/<c1>|<c2>...
func VersText(scheme string, cs []VC) string {
	parts := make([]string, len(cs))
	for i, c := range cs {
		parts[i] = c.Op + c.V
	}
	return "vers:" + scheme + "/" + strings.Join(parts, "|")
}

// VersShape classifies the comparator sequence (constraints sorted by the
// scheme's order, '=' and '!=' removed): it is well-formed when lower and
// upper comparators alternate: [<|<=] ((>|>=)(<|<=))* [>|>=].
func versAlternates(sorted []VC) bool {
	var rc []VC
	for _, c := range sorted {
		if c.Op != "=" && c.Op != "!=" {
			rc = append(rc, c)
		}
	}
	for i := 0; i+1 < len(rc); i++ {
		if (rc[i].Op[0] == '>') == (rc[i+1].Op[0] == '>') {
			return false
		}
	}
	return true
}

// VersEval is the VERS interval-union semantics under ecosystem e's order.
// ok=false when the case is outside C04's domain: a version is rejected by e,
// two constraint versions compare equal, or the comparators do not alternate.
func VersEval(e eco.Eco, scheme string, cs []VC, probe string) (res bool, ok bool) {
	p, err := e.NewVersion(probe)
	if err != nil || len(cs) == 0 {
		return false, false
	}
	type pc struct {
		op string
		v  eco.Ver
		s  string
	}
	var ps []pc
	for _, c := range cs {
		v, err := e.NewVersion(c.V)
		if err != nil {
			return false, false
		}
		ps = append(ps, pc{c.Op, v, c.V})
	}
	sort.SliceStable(ps, func(i, j int) bool { return ps[i].v.Compare(ps[j].v) < 0 })
	sorted := make([]VC, len(ps))
	for i, c := range ps {
		sorted[i] = VC{c.op, c.s}
		if i > 0 && ps[i-1].v.Compare(c.v) == 0 {
			return false, false
		}
	}
	if !versAlternates(sorted) {
		return false, false
	}
	if scheme == "pypi" {
		// PEP 440 default: pre-/dev-releases are excluded unless a constraint names one
		if k, okp := PepParse(probe); okp && k.IsPre {
			named := false
			for _, c := range cs {
				if kc, okc := PepParse(c.V); okc && kc.IsPre {
					named = true
				}
			}
			if !named {
				return false, true
			}
		}
	}
	hasEq := false
	var rc []pc
	for _, c := range ps {
		switch c.op {
		case "!=":
			if p.Compare(c.v) == 0 {
				return false, true
			}
		case "=":
			hasEq = true
		default:
			rc = append(rc, c)
		}
	}
	for _, c := range ps {
		if c.op == "=" && p.Compare(c.v) == 0 {
			return true, true
		}
	}
	if len(rc) == 0 {
		return !hasEq, true
	}
	inLo := func(c pc) bool {
		x := p.Compare(c.v)
		return x > 0 || (x == 0 && c.op == ">=")
	}
	inHi := func(c pc) bool {
		x := p.Compare(c.v)
		return x < 0 || (x == 0 && c.op == "<=")
	}
	i := 0
	if rc[0].op[0] == '<' {
		if inHi(rc[0]) {
			return true, true
		}
		i = 1
	}
	for ; i < len(rc); i += 2 {
		if i+1 < len(rc) {
			if inLo(rc[i]) && inHi(rc[i+1]) {
				return true, true
			}
		} else if inLo(rc[i]) {
			return true, true
		}
	}
	return false, true
}
