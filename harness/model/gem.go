package model

import (
	"regexp"
	"strings"
)

var gemScan = regexp.MustCompile(`[0-9]+|[a-zA-Z]+`)

// RubyGems' ANCHORED_VERSION_PATTERN (without surrounding whitespace)
var gemPattern = regexp.MustCompile(`^[0-9]+(\.[0-9a-zA-Z]+)*(-[0-9A-Za-z-]+(\.[0-9A-Za-z-]+)*)?$`)

// GemValid reports whether RubyGems itself accepts s.
func GemValid(s string) bool { return gemPattern.MatchString(s) }

type gemSeg struct {
	isNum bool
	n     string // digits without leading zeros
	s     string
}

func gemSegments(v string) []gemSeg {
	v = strings.ReplaceAll(strings.TrimSpace(v), "-", ".pre.")
	var out []gemSeg
	for _, t := range gemScan.FindAllString(v, -1) {
		if isDig(t[0]) {
			out = append(out, gemSeg{isNum: true, n: strings.TrimLeft(t, "0")})
		} else {
			out = append(out, gemSeg{s: t})
		}
	}
	return out
}

func gemStrip(x []gemSeg) []gemSeg {
	for len(x) > 0 && x[len(x)-1].isNum && x[len(x)-1].n == "" {
		x = x[:len(x)-1]
	}
	return x
}

// gemCanonical: canonical=true is current RubyGems (canonical_segments: split
// at the first string segment, strip trailing zeros of both halves);
// canonical=false is the plain reading of the property statement (trailing
// zero segments of the whole version are ignored).
func gemCanonical(segs []gemSeg, canonical bool) []gemSeg {
	if !canonical {
		return gemStrip(append([]gemSeg{}, segs...))
	}
	k := len(segs)
	for i, s := range segs {
		if !s.isNum {
			k = i
			break
		}
	}
	num := gemStrip(append([]gemSeg{}, segs[:k]...))
	str := gemStrip(append([]gemSeg{}, segs[k:]...))
	return append(num, str...)
}

func gemCmp(a, b string, canonical bool) int {
	x := gemCanonical(gemSegments(a), canonical)
	y := gemCanonical(gemSegments(b), canonical)
	n := len(x)
	if len(y) > n {
		n = len(y)
	}
	zero := gemSeg{isNum: true}
	for i := 0; i < n; i++ {
		l, r := zero, zero
		if i < len(x) {
			l = x[i]
		}
		if i < len(y) {
			r = y[i]
		}
		if l == r {
			continue
		}
		if !l.isNum && r.isNum {
			return -1
		}
		if l.isNum && !r.isNum {
			return 1
		}
		if l.isNum {
			return CmpNumStr(l.n, r.n)
		}
		return sgn(strings.Compare(l.s, r.s))
	}
	return 0
}

// GemCompare returns the Gem::Version#<=> order under both readings and
// whether they agree (only then is the result claimed).
func GemCompare(a, b string) (int, bool) {
	c1, c2 := gemCmp(a, b, true), gemCmp(a, b, false)
	return c1, c1 == c2
}
