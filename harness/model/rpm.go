package model

import (
	"strings"
)

// Rpmvercmp is a transcription of rpmvercmp() from rpm >= 4.15 (with the
// caret operator).
func Rpmvercmp(a, b string) int {
	c, _ := RpmvercmpWhy(a, b)
	return c
}

// RpmvercmpWhy also names the rule that decided: "equal", "tilde", "caret",
// "type" (numeric segment against alphabetic segment), "num", "alpha",
// "remaining".
func RpmvercmpWhy(a, b string) (int, string) {
	if a == b {
		return 0, "equal"
	}
	i, j := 0, 0
	for i < len(a) || j < len(b) {
		for i < len(a) && !isAlnum(a[i]) && a[i] != '~' && a[i] != '^' {
			i++
		}
		for j < len(b) && !isAlnum(b[j]) && b[j] != '~' && b[j] != '^' {
			j++
		}
		ca, cb := at(a, i), at(b, j)
		if ca == '~' || cb == '~' {
			if ca != '~' {
				return 1, "tilde"
			}
			if cb != '~' {
				return -1, "tilde"
			}
			i++
			j++
			continue
		}
		if ca == '^' || cb == '^' {
			if ca == 0 {
				return -1, "caret"
			}
			if cb == 0 {
				return 1, "caret"
			}
			if ca != '^' {
				return 1, "caret"
			}
			if cb != '^' {
				return -1, "caret"
			}
			i++
			j++
			continue
		}
		if ca == 0 || cb == 0 {
			break
		}
		si, sj := i, j
		isnum := false
		if isDig(a[i]) {
			for i < len(a) && isDig(a[i]) {
				i++
			}
			for j < len(b) && isDig(b[j]) {
				j++
			}
			isnum = true
		} else {
			for i < len(a) && isAl(a[i]) {
				i++
			}
			for j < len(b) && isAl(b[j]) {
				j++
			}
		}
		s1, s2 := a[si:i], b[sj:j]
		if len(s2) == 0 {
			// the segments are of different types: numeric is newer than alphabetic
			if isnum {
				return 1, "type"
			}
			return -1, "type"
		}
		if isnum {
			s1 = strings.TrimLeft(s1, "0")
			s2 = strings.TrimLeft(s2, "0")
			if len(s1) > len(s2) {
				return 1, "num"
			}
			if len(s2) > len(s1) {
				return -1, "num"
			}
		}
		if c := strings.Compare(s1, s2); c != 0 {
			if isnum {
				return sgn(c), "num"
			}
			return sgn(c), "alpha"
		}
	}
	if i >= len(a) && j >= len(b) {
		return 0, "equal"
	}
	if i < len(a) {
		return 1, "remaining"
	}
	return -1, "remaining"
}

// RpmSplit splits [epoch:]version[-release] (release after the last hyphen).
func RpmSplit(s string) (e, v, r string) {
	s = strings.TrimSpace(s)
	if k := strings.Index(s, ":"); k >= 0 && allDigits(s[:k]) {
		e, s = s[:k], s[k+1:]
	}
	if k := strings.LastIndex(s, "-"); k >= 0 {
		return e, s[:k], s[k+1:]
	}
	return e, s, ""
}

// RpmInDomain: characters [0-9A-Za-z._+~^] in version and release, numeric
// epoch, non-empty version part.
func RpmInDomain(s string) bool {
	e, v, r := RpmSplit(s)
	if v == "" || len(e) > 9 {
		return false
	}
	for _, part := range []string{v, r} {
		for i := 0; i < len(part); i++ {
			c := part[i]
			if !(isAlnum(c) || c == '.' || c == '_' || c == '+' || c == '~' || c == '^') {
				return false
			}
		}
	}
	return true
}

// RpmCompare orders two in-domain RPM version strings: epoch, version, release.
func RpmCompare(a, b string) int {
	e1, v1, r1 := RpmSplit(a)
	e2, v2, r2 := RpmSplit(b)
	if c := CmpNumStr(e1, e2); c != 0 {
		return c
	}
	if c := Rpmvercmp(v1, v2); c != 0 {
		return c
	}
	return Rpmvercmp(r1, r2)
}

// RpmCompareWhy is RpmCompare plus the deciding rule ("epoch" or a rule of RpmvercmpWhy).
func RpmCompareWhy(a, b string) (int, string) {
	e1, v1, r1 := RpmSplit(a)
	e2, v2, r2 := RpmSplit(b)
	if c := CmpNumStr(e1, e2); c != 0 {
		return c, "epoch"
	}
	if c, why := RpmvercmpWhy(v1, v2); c != 0 {
		return c, why
	}
	return RpmvercmpWhy(r1, r2)
}
