package model

import (
	"regexp"
	"strconv"
	"strings"
)

// packaging's VERSION_PATTERN (case-insensitive, normalised to lower case first)
var pepRe = regexp.MustCompile(`^v?(?:([0-9]+)!)?([0-9]+(?:\.[0-9]+)*)(?:[-_.]?(alpha|a|beta|b|preview|pre|c|rc)[-_.]?([0-9]+)?)?(?:(?:-([0-9]+))|(?:[-_.]?(post|rev|r)[-_.]?([0-9]+)?))?(?:[-_.]?(dev)[-_.]?([0-9]+)?)?(?:\+([a-z0-9]+(?:[-_.][a-z0-9]+)*))?$`)

var pepSplitLocal = regexp.MustCompile(`[-_.]`)

// PepKey is packaging's _cmpkey.
type PepKey struct {
	Epoch   string
	Release []string
	PreKind int // -1000 = -inf, 0 a, 1 b, 2 rc, 1000 = +inf
	PreNum  string
	Post    string // "" with HasPost=false = -inf
	HasPost bool
	Dev     string // HasDev=false = +inf
	HasDev  bool
	Local   []string
	HasLoc  bool
	// IsPre: the version is a pre-release or dev release (packaging's is_prerelease)
	IsPre bool
}

// PepParse parses s as packaging.version.Version does.
func PepParse(s string) (PepKey, bool) {
	s = strings.ToLower(strings.TrimSpace(s))
	m := pepRe.FindStringSubmatch(s)
	if m == nil {
		return PepKey{}, false
	}
	var k PepKey
	k.Epoch = m[1]
	k.Release = strings.Split(m[2], ".")
	for len(k.Release) > 1 && strings.TrimLeft(k.Release[len(k.Release)-1], "0") == "" {
		k.Release = k.Release[:len(k.Release)-1]
	}
	hasPre := m[3] != ""
	k.HasPost = m[5] != "" || m[6] != ""
	k.HasDev = m[8] != ""
	k.IsPre = hasPre || k.HasDev
	switch {
	case hasPre:
		k.PreKind = map[string]int{"a": 0, "alpha": 0, "b": 1, "beta": 1, "c": 2, "rc": 2, "pre": 2, "preview": 2}[m[3]]
		k.PreNum = m[4]
	case !k.HasPost && k.HasDev:
		k.PreKind = -1000
	default:
		k.PreKind = 1000
	}
	if k.HasPost {
		k.Post = m[5] + m[7]
	}
	if k.HasDev {
		k.Dev = m[9]
	}
	if m[10] != "" {
		k.HasLoc = true
		k.Local = pepSplitLocal.Split(m[10], -1)
	}
	return k, true
}

func cmpInt(a, b int) int {
	if a < b {
		return -1
	}
	if a > b {
		return 1
	}
	return 0
}

// PepCompareKeys compares two keys as packaging compares _cmpkey tuples.
func PepCompareKeys(a, b PepKey) int {
	if c := CmpNumStr(a.Epoch, b.Epoch); c != 0 {
		return c
	}
	for i := 0; i < len(a.Release) || i < len(b.Release); i++ {
		x, y := "0", "0"
		if i < len(a.Release) {
			x = a.Release[i]
		}
		if i < len(b.Release) {
			y = b.Release[i]
		}
		if c := CmpNumStr(x, y); c != 0 {
			return c
		}
	}
	if c := cmpInt(a.PreKind, b.PreKind); c != 0 {
		return c
	}
	if c := CmpNumStr(a.PreNum, b.PreNum); c != 0 {
		return c
	}
	if a.HasPost != b.HasPost {
		if a.HasPost {
			return 1
		}
		return -1
	}
	if c := CmpNumStr(a.Post, b.Post); c != 0 {
		return c
	}
	if a.HasDev != b.HasDev {
		if a.HasDev {
			return -1
		}
		return 1
	}
	if c := CmpNumStr(a.Dev, b.Dev); c != 0 {
		return c
	}
	if !a.HasLoc && !b.HasLoc {
		return 0
	}
	if !a.HasLoc {
		return -1
	}
	if !b.HasLoc {
		return 1
	}
	for i := 0; i < len(a.Local) && i < len(b.Local); i++ {
		x, y := a.Local[i], b.Local[i]
		_, ex := strconv.ParseUint(x, 10, 64)
		_, ey := strconv.ParseUint(y, 10, 64)
		dx, dy := ex == nil && allDigits(x), ey == nil && allDigits(y)
		if allDigits(x) {
			dx = true
		}
		if allDigits(y) {
			dy = true
		}
		switch {
		case dx && dy:
			if c := CmpNumStr(x, y); c != 0 {
				return c
			}
		case dx:
			return 1
		case dy:
			return -1
		default:
			if c := strings.Compare(x, y); c != 0 {
				return sgn(c)
			}
		}
	}
	return cmpInt(len(a.Local), len(b.Local))
}

// PepCompare compares two version strings; ok=false if either is not valid PEP 440.
func PepCompare(a, b string) (int, bool) {
	ka, ok1 := PepParse(a)
	kb, ok2 := PepParse(b)
	if !ok1 || !ok2 {
		return 0, false
	}
	return PepCompareKeys(ka, kb), true
}
