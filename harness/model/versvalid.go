package model

import (
	"strings"

	"verifharness/eco"
)

var versOps = []string{">=", "<=", "!=", ">", "<", "="}

// VersIllFormed re-implements the validation rules of the VERS statement
// (C17) on top of the target ecosystem's own version parser. It returns the
// reasons for which (rangeText, probe) must be rejected; an empty result means
// "nothing claimed" (the pair may be valid, or be the lone '*' form).
func VersIllFormed(rangeText, probe string) []string {
	var why []string
	if !strings.HasPrefix(rangeText, "vers:") {
		return []string{"does not start with 'vers:'"}
	}
	for _, r := range rangeText {
		if r < 32 || r > 126 {
			why = append(why, "non-printable or non-ASCII character")
			break
		}
	}
	rest := rangeText[len("vers:"):]
	k := strings.Index(rest, "/")
	if k < 0 {
		return append(why, "no '/' separator")
	}
	scheme, cons := rest[:k], rest[k+1:]
	if scheme == "" {
		return append(why, "empty scheme")
	}
	for i := 0; i < len(scheme); i++ {
		c := scheme[i]
		if !((c >= 'a' && c <= 'z') || (c >= '0' && c <= '9')) {
			return append(why, "scheme has a character outside [a-z0-9]")
		}
	}
	var list []string
	stars := 0
	for _, c := range strings.Split(cons, "|") {
		c = strings.ReplaceAll(c, " ", "")
		if c == "" {
			continue
		}
		if c == "*" {
			stars++
		}
		list = append(list, c)
	}
	if len(list) == 0 {
		return append(why, "no constraint")
	}
	if stars == 1 && len(list) == 1 {
		return why // the lone '*' form is answered before scheme and version are looked at: not covered
	}
	en, ok := eco.Schemes[scheme]
	if !ok {
		return append(why, "unsupported scheme")
	}
	e := eco.ByName(en)
	if stars > 0 {
		return append(why, "misplaced '*'")
	}
	for _, c := range list {
		op := ""
		for _, o := range versOps {
			if strings.HasPrefix(c, o) {
				op = o
				break
			}
		}
		if op == "" {
			why = append(why, "constraint without comparator: "+c)
			continue
		}
		v := c[len(op):]
		if v == "" {
			why = append(why, "comparator without version: "+c)
			continue
		}
		if len(why) == 0 || true {
			if hasNonPrintable(v) {
				continue // already covered by the character rule
			}
			if _, err := e.NewVersion(v); err != nil {
				why = append(why, "constraint version rejected by "+en+": "+v)
			}
		}
	}
	if _, err := e.NewVersion(probe); err != nil {
		why = append(why, "probe rejected by "+en)
	}
	return why
}

func hasNonPrintable(s string) bool {
	for _, r := range s {
		if r < 32 || r > 126 {
			return true
		}
	}
	return false
}
