// Package model holds reference models: naive transcriptions of the
// published ordering algorithms, sharing no code or structure with go-univers.
package model

import "strings"

func sgn(x int) int {
	if x < 0 {
		return -1
	}
	if x > 0 {
		return 1
	}
	return 0
}

func isDig(c byte) bool   { return c >= '0' && c <= '9' }
func isAl(c byte) bool    { return (c >= 'a' && c <= 'z') || (c >= 'A' && c <= 'Z') }
func isAlnum(c byte) bool { return isDig(c) || isAl(c) }

func allDigits(s string) bool {
	if s == "" {
		return false
	}
	for i := 0; i < len(s); i++ {
		if !isDig(s[i]) {
			return false
		}
	}
	return true
}

// CmpNumStr compares two decimal digit strings of any length as integers
// (leading zeros ignored; the empty string is zero).
func CmpNumStr(a, b string) int {
	a, b = strings.TrimLeft(a, "0"), strings.TrimLeft(b, "0")
	if len(a) != len(b) {
		return sgn(len(a) - len(b))
	}
	return sgn(strings.Compare(a, b))
}
