module verifharness

go 1.24.4

require (
	github.com/alowayed/go-univers v0.0.0
	golang.org/x/mod v0.22.0
	pgregory.net/rapid v1.3.0
)

replace github.com/alowayed/go-univers => /repo
