// Package gen holds the grammar-based generators. Every random choice goes
// through rapid so that shrinking and seeded replay work.
package gen

import (
	"strconv"
	"strings"

	"pgregory.net/rapid"
)

// Pick draws one of xs.
func Pick(t *rapid.T, label string, xs ...string) string {
	return rapid.SampledFrom(xs).Draw(t, label)
}

// Chance returns true with probability num/den.
func Chance(t *rapid.T, label string, num, den int) bool {
	return rapid.IntRange(0, den-1).Draw(t, label) < num
}

// boundary pool of the C03 quantifier.
var boundary = []string{"0", "1", "2", "9", "10", "11", "99", "100", "999", "1000", "65535", "2147483647",
	// neighbours of 8/15/16-bit field limits (packed keys)
	"255", "256", "257", "32767", "32768", "65536", "65537"}

// small values dominate so that components collide often.
var small = []string{"0", "0", "1", "1", "2", "2", "3", "4", "5", "9", "10", "11", "12", "20", "99", "100"}

// bigRuns are digit runs beyond 64 bits (and their leading-zero relatives).
var bigRuns = []string{"18446744073709551615", "18446744073709551616", "99999999999999999999", "100000000000000000000",
	"000000000000000000001", "0000000000000000000000", "123456789012345678901234", "099999999999999999999",
	// runs around fixed-width keys (32, 64, 100 digits): the shorter one has the larger leading digits
	strings.Repeat("9", 32), "1" + strings.Repeat("0", 32), strings.Repeat("9", 64), "1" + strings.Repeat("0", 64), strings.Repeat("9", 65), "1" + strings.Repeat("0", 99)}

// wide are values around the word sizes a parser may silently narrow to (2^32, 2^48, 2^53, 2^63); they all fit in 64 bits.
var wide = []string{"4294967295", "4294967296", "4294967297", "8589934593", "281474976710655", "281474976710656", "281474976710657", "9007199254740992", "9007199254740993",
	"1125899906842624", "9223372036854775806", "9223372036854775807"}

// NumOpts selects what Num may produce.
type NumOpts struct {
	LeadingZeros bool // "01", "007"
	Big          bool // beyond 64 bits
	NoBoundary   bool
}

// Num draws a decimal number string.
func Num(t *rapid.T, label string, o NumOpts) string {
	k := rapid.IntRange(0, 99).Draw(t, label+"K")
	switch {
	case k < 60:
		return Pick(t, label, small...)
	case k < 75 && !o.NoBoundary:
		return Pick(t, label, boundary...)
	case k < 80:
		return strconv.Itoa(rapid.IntRange(0, 1<<31-1).Draw(t, label))
	case k < 82 && !o.NoBoundary:
		return Pick(t, label, wide...)
	case k < 88 && o.LeadingZeros:
		return Pick(t, label+"Z", "0", "00", "000") + Pick(t, label, small...)
	case k < 90 && o.LeadingZeros:
		// long zero-padded runs and the largest 64-bit values (slow paths of parsers that special-case length)
		return Pick(t, label, "000000000000000000000007", "00000000000000000001", "9223372036854775807", "0000000000000000000000010", "999999999999999999")
	case k < 96 && o.Big:
		return Pick(t, label, bigRuns...)
	default:
		return strconv.Itoa(rapid.IntRange(0, 30).Draw(t, label))
	}
}

// counters: values for epochs, revisions and pre/post/dev numbers that are written with leading zeros or sit next to
// the word sizes a parser may narrow to (adjacent pairs, so that a neighbour's +-1 lands on the other side).
var counters = []string{"00", "010", "08", "007", "2147483647", "2147483648", "4294967295", "4294967296", "4294967297", "281474976710656", "9007199254740992", "9007199254740993",
	"20240229123456", "9223372036854775807"}

// Counter draws a small number most of the time and one of counters otherwise.
func Counter(t *rapid.T, label string) string {
	if Chance(t, label+"C", 1, 7) {
		return Pick(t, label, counters...)
	}
	return Pick(t, label, small...)
}

// SmallNum draws from the small pool only.
func SmallNum(t *rapid.T, label string) string { return Pick(t, label, small...) }

// Dotted draws N(.N){lo-1,hi-1}.
func Dotted(t *rapid.T, label string, lo, hi int, o NumOpts) string {
	n := rapid.IntRange(lo, hi).Draw(t, label+"N")
	parts := make([]string, n)
	for i := range parts {
		parts[i] = Num(t, label+strconv.Itoa(i), o)
	}
	return strings.Join(parts, ".")
}

// MixCase randomly changes the letter case of s: as is, upper, lower, title.
func MixCase(t *rapid.T, label, s string) string {
	switch rapid.IntRange(0, 5).Draw(t, label) {
	case 0:
		return strings.ToUpper(s)
	case 1:
		if s == "" {
			return s
		}
		return strings.ToUpper(s[:1]) + s[1:]
	default:
		return s
	}
}

// Tokens splits s into maximal digit runs, maximal ASCII letter runs and
// single other bytes.
func Tokens(s string) []string {
	var out []string
	cls := func(c byte) int {
		switch {
		case c >= '0' && c <= '9':
			return 1
		case (c >= 'a' && c <= 'z') || (c >= 'A' && c <= 'Z'):
			return 2
		}
		return 3
	}
	i := 0
	for i < len(s) {
		c := cls(s[i])
		j := i + 1
		if c != 3 {
			for j < len(s) && cls(s[j]) == c {
				j++
			}
		}
		out = append(out, s[i:j])
		i = j
	}
	return out
}

func isDigits(s string) bool {
	if s == "" {
		return false
	}
	for i := 0; i < len(s); i++ {
		if s[i] < '0' || s[i] > '9' {
			return false
		}
	}
	return true
}

func isLetters(s string) bool {
	if s == "" {
		return false
	}
	for i := 0; i < len(s); i++ {
		c := s[i]
		if !((c >= 'a' && c <= 'z') || (c >= 'A' && c <= 'Z')) {
			return false
		}
	}
	return true
}

// incDec returns the decimal string n±1 (never below 0), preserving nothing
// of the original spelling (no leading zeros).
func incDec(n string, up bool) string {
	d := strings.TrimLeft(n, "0")
	if d == "" {
		d = "0"
	}
	b := []byte(d)
	if up {
		i := len(b) - 1
		for i >= 0 {
			if b[i] == '9' {
				b[i] = '0'
				i--
				continue
			}
			b[i]++
			break
		}
		if i < 0 {
			b = append([]byte{'1'}, b...)
		}
		return string(b)
	}
	if d == "0" {
		return "0"
	}
	i := len(b) - 1
	for i >= 0 {
		if b[i] == '0' {
			b[i] = '9'
			i--
			continue
		}
		b[i]--
		break
	}
	r := strings.TrimLeft(string(b), "0")
	if r == "" {
		r = "0"
	}
	return r
}
