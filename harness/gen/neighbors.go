package gen

import (
	"fmt"
	"strings"

	"pgregory.net/rapid"

	"verifharness/eco"
)

// keyword pools used when a letter token is replaced, per ecosystem.
var wordPool = map[string][]string{
	"alpine":     {"alpha", "beta", "pre", "rc", "cvs", "svn", "git", "hg", "p", "r", "a", "b", "foo"},
	"alpm":       {"a", "b", "alpha", "beta", "rc", "pre", "p", "git", "r", "and", "AND", "or"},                                            // range keywords are ordinary identifiers inside a version
	"apache":     {"alpha", "beta", "M", "milestone", "RC", "rc", "SNAPSHOT", "dev", "foo", "final", "GA", "release", "Final", "ga", "sp"}, // incl. words that are qualifiers elsewhere (Maven)
	"cargo":      {"alpha", "beta", "rc", "a", "b", "RC", "x"},
	"composer":   {"alpha", "beta", "RC", "a", "b", "rc", "dev", "patch", "pl"},
	"conan":      {"a", "b", "alpha", "beta", "rc", "x"},
	"cran":       {},
	"debian":     {"a", "b", "rc", "beta", "ubuntu", "dfsg", "z", "A"},
	"gem":        {"a", "b", "rc", "pre", "alpha", "beta", "dev"},
	"gentoo":     {"alpha", "beta", "pre", "rc", "p", "a", "b", "r"},
	"github":     {"dev", "alpha", "beta", "rc", "snapshot", "foo", "v"},
	"golang":     {"alpha", "beta", "rc", "a", "b", "RC", "v", "incompatible"},
	"hex":        {"alpha", "beta", "rc", "a", "b", "RC", "and", "or", "AND"},
	"mattermost": {"rc", "esr", "v"},
	"maven":      {"alpha", "beta", "milestone", "rc", "cr", "snapshot", "ga", "final", "release", "sp", "foo", "a", "b", "m"},
	"npm":        {"alpha", "beta", "rc", "a", "b", "RC", "v"},
	"nuget":      {"alpha", "beta", "rc", "a", "b", "RC"},
	"pypi":       {"a", "b", "rc", "alpha", "beta", "c", "post", "rev", "r", "dev"},
	"rpm":        {"a", "b", "rc", "beta", "git", "el", "z", "A"},
	"semver":     {"alpha", "beta", "rc", "a", "b", "RC"},
}

// BigOK: ecosystems whose parsers accept digit runs beyond 64 bits.
var BigOK = map[string]bool{"alpm": true, "conan": true, "debian": true, "gem": true, "maven": true, "rpm": true}

// tail pieces that may be appended to (or removed from) a version.
var tailPool = map[string][]string{
	"alpine":     {".0", ".1", "a", "_alpha", "_alpha1", "_beta2", "_pre", "_rc1", "_p", "_p1", "_git1", "_cvs", "-r0", "-r1", "-r2", "~abc", "_foo"},
	"alpm":       {".0", ".1", "a", "rc", "rc1", ".a", "_1", "+1", "-1", "-2", "beta", "pre1", ".and", "and", ".AND.2", "+or"},
	"apache":     {"-alpha", "-beta1", "-M1", "-RC1", "-rc2", "-SNAPSHOT", "-dev", "-foo", "-final", "-GA", "-release", "-foo1"},
	"cargo":      {"-alpha", "-alpha.1", "-rc.1", "-0", "-1", "+build", "-a.b", "-rc.1.x"},
	"composer":   {".0", ".1", "-alpha1", "-beta2", "-RC1", "-rc1", "a1", "b2", "RC3", "-dev", "-patch1", "pl1", "+build", "-alpha", "-patch"},
	"conan":      {".0", ".1", ".a", "-alpha", "-rc.1", "-0", "+build", "-a.b"},
	"cran":       {".0", ".1", "-1", "-0"},
	"debian":     {".0", ".1", "a", "~", "~rc1", "~beta1", "+b1", "+dfsg", "-1", "-0", "-2", "-1ubuntu1", "+", "-0.1"},
	"gem":        {".0", ".1", ".rc1", ".pre", ".a", "-rc1", "-alpha", ".rc", ".beta", "-1", "+build"},
	"gentoo":     {".0", ".1", "a", "_alpha", "_beta1", "_pre2", "_rc1", "_p", "_p1", "-r0", "-r1", "-r2"},
	"github":     {"-alpha", "-beta.1", "-rc.2", ".rc1", "-SNAPSHOT", "-dev", "-foo1"},
	"golang":     {"-alpha", "-alpha.1", "-rc.1", "-0", "-rc.10", "-rc.2", "+build", "-0.20230101000000-abcdefabcdef", "+incompatible", "-00010101000000-000000000000"},
	"hex":        {"-alpha", "-alpha.1", "-rc.1", "-0", "+build", "-rc.10", "-and", "-and.1", "-or", "+and"},
	"mattermost": {"-rc1", "-rc2", "-rc", "-esr"},
	"maven":      {".0", ".1", "-alpha-1", "-a1", "-beta-2", "-M1", "-milestone-1", "-rc1", "-RC1", "-cr1", "-SNAPSHOT", "-sp", "-sp1", "-1", "-foo", ".Final", "-ga", ".RELEASE", "-0", "%2Bsp1", "-%41", "%20x"},
	"npm":        {"-alpha", "-alpha.1", "-rc.1", "-0", "+build", "-rc.10", "-x"},
	"nuget":      {".0", ".1", "-alpha", "-alpha.1", "-rc.1", "-0", "+build"},
	"pypi":       {".0", ".1", "a1", "b2", "rc1", "c1", "alpha1", ".dev1", "dev0", ".post1", "post0", ".rev1", ".r1", "+local", "+1", "+abc.1"},
	"rpm":        {".0", ".1", "a", "~", "~rc1", "~beta", "^", "^git1", "^1", "-1", "-0", "-2", "-1.el8", "_1", "+1"},
	"semver":     {"-alpha", "-alpha.1", "-rc.1", "-0", "+build", "-rc.10"},
}

func accepted(e eco.Eco, s string) bool {
	_, err := e.NewVersion(s)
	return err == nil
}

// mutateOnce applies one structural edit to v.
func mutateOnce(t *rapid.T, e eco.Eco, v, l string) string {
	if len(v) < 24 && rapid.IntRange(0, 59).Draw(t, l+"lengthen") == 37 { // (a middle value: rapid favours the ends of a range)
		// a long tail (up to about 300 characters): later edits then differ behind a long common prefix
		return lengthenUpTo(t, e, v, l+"len", 9)
	}
	toks := Tokens(v)
	switch rapid.IntRange(0, 10).Draw(t, l+"op") {
	case 10: // toggle a leading "v" (a prefix in some ecosystems, part of the version in others)
		if strings.HasPrefix(v, "v") || strings.HasPrefix(v, "V") {
			return v[1:]
		}
		return "v" + v
	case 0, 1, 2: // change a numeric token
		var idx []int
		for i, tk := range toks {
			if isDigits(tk) {
				idx = append(idx, i)
			}
		}
		if len(idx) == 0 {
			return v
		}
		i := idx[rapid.IntRange(0, len(idx)-1).Draw(t, l+"ni")]
		switch rapid.IntRange(0, 8).Draw(t, l+"nk") {
		case 8:
			toks[i] = Pick(t, l+"nv", wide...)
		case 0, 1:
			toks[i] = incDec(toks[i], true)
		case 2:
			toks[i] = incDec(toks[i], false)
		case 3:
			toks[i] = "0" + toks[i]
		case 4:
			toks[i] = Pick(t, l+"nv", boundary...)
		case 5:
			// numbers beyond 64 bits and long zero-padded runs, where the parser keeps digit strings
			// (elsewhere such a run is often still accepted in a pre-release or qualifier position: tried half of the time)
			if BigOK[e.Name] || Chance(t, l+"bigtry", 1, 2) {
				toks[i] = Pick(t, l+"nv", bigRuns...)
			} else {
				toks[i] = Pick(t, l+"nv", small...)
			}
		case 6:
			// the same value with a long run of leading zeros
			if BigOK[e.Name] {
				toks[i] = "00000000000000000000" + toks[i]
			} else {
				toks[i] = "00" + toks[i]
			}
		default:
			toks[i] = Pick(t, l+"nv", small...)
		}
	case 3: // change a letter token
		var idx []int
		for i, tk := range toks {
			if isLetters(tk) {
				idx = append(idx, i)
			}
		}
		pool := wordPool[e.Name]
		if len(idx) == 0 || len(pool) == 0 {
			return v
		}
		i := idx[rapid.IntRange(0, len(idx)-1).Draw(t, l+"li")]
		if Chance(t, l+"case", 1, 4) {
			if toks[i] == strings.ToLower(toks[i]) {
				toks[i] = strings.ToUpper(toks[i])
			} else {
				toks[i] = strings.ToLower(toks[i])
			}
		} else {
			toks[i] = Pick(t, l+"lw", pool...)
		}
	case 4, 5: // append a tail piece
		pool := tailPool[e.Name]
		if len(pool) == 0 {
			return v
		}
		return v + Pick(t, l+"tail", pool...)
	case 6: // remove the last token (and a separator before it)
		if len(toks) < 3 {
			return v
		}
		toks = toks[:len(toks)-1]
		if last := toks[len(toks)-1]; !isDigits(last) && !isLetters(last) {
			toks = toks[:len(toks)-1]
		}
	case 7: // cut at a random token boundary, then append a tail
		if len(toks) < 3 {
			return v
		}
		k := rapid.IntRange(1, len(toks)-1).Draw(t, l+"cut")
		s := strings.Join(toks[:k], "")
		if pool := tailPool[e.Name]; len(pool) > 0 && Chance(t, l+"cuttail", 1, 2) {
			s += Pick(t, l+"tail", pool...)
		}
		return s
	case 8: // change a separator
		var idx []int
		for i, tk := range toks {
			if !isDigits(tk) && !isLetters(tk) {
				idx = append(idx, i)
			}
		}
		if len(idx) == 0 {
			return v
		}
		i := idx[rapid.IntRange(0, len(idx)-1).Draw(t, l+"si")]
		toks[i] = Pick(t, l+"sv", ".", "-", "_", "+", "~", "")
	default: // insert ".0" or ".1" after a numeric token
		var idx []int
		for i, tk := range toks {
			if isDigits(tk) {
				idx = append(idx, i)
			}
		}
		if len(idx) == 0 {
			return v
		}
		i := idx[rapid.IntRange(0, len(idx)-1).Draw(t, l+"ii")]
		toks[i] = toks[i] + Pick(t, l+"iv", ".0", ".1", ".00")
	}
	return strings.Join(toks, "")
}

// Neighbor derives a version close to base by 1-2 structural edits and keeps
// it only if the ecosystem accepts it; otherwise a fresh version is drawn.
func Neighbor(t *rapid.T, e eco.Eco, base, l string) string {
	for try := 0; try < 4; try++ {
		tl := fmt.Sprintf("%s.%d", l, try)
		c := mutateOnce(t, e, base, tl+"a")
		if Chance(t, tl+"two", 1, 4) {
			c = mutateOnce(t, e, c, tl+"b")
		}
		if c != base && accepted(e, c) {
			return c
		}
	}
	return Version(t, e.Name, l+"fresh")
}

// Pool draws n versions: a base, neighbours of it (and of each other) and
// fresh ones (about 60 % neighbours).
func Pool(t *rapid.T, e eco.Eco, n int, l string) []string {
	out := make([]string, 0, n)
	out = append(out, Version(t, e.Name, l+"base"))
	for i := 1; i < n; i++ {
		il := fmt.Sprintf("%s%d", l, i)
		if Chance(t, il+"nb", 3, 5) {
			from := out[rapid.IntRange(0, len(out)-1).Draw(t, il+"from")]
			out = append(out, Neighbor(t, e, from, il))
		} else {
			out = append(out, Version(t, e.Name, il+"fresh"))
		}
	}
	return out
}

// EqualVariants proposes other spellings of v that might compare equal; only
// those the ecosystem accepts AND for which the library's own Compare returns
// 0 in both directions are kept (so no equality oracle is assumed).
func EqualVariants(e eco.Eco, v string) []string {
	if len(v) > 1000 {
		return nil // one proposal per token: quadratic on very long versions, which have nothing new to offer here
	}
	base, err := e.NewVersion(v)
	if err != nil {
		return nil
	}
	var cands []string
	add := func(s string) { cands = append(cands, s) }
	add("v" + v)
	add(strings.TrimPrefix(v, "v"))
	add("=" + v)
	add(v + ".0")
	add(v + ".0.0")
	add(strings.TrimSuffix(v, ".0"))
	add(v + "+build")
	add(v + "+b.2")
	add(v + "+incompatible")
	add(strings.TrimSuffix(v, "+incompatible"))
	add(v + "-0")
	add(v + "-r0")
	add(strings.TrimSuffix(v, "-r0"))
	add(strings.TrimSuffix(v, "-0"))
	add("0:" + v)
	add(strings.TrimPrefix(v, "0:"))
	add("0!" + v)
	add(strings.ToUpper(v))
	add(strings.ToLower(v))
	add("release-" + v)
	if i := strings.IndexByte(v, '+'); i > 0 {
		add(v[:i])
		add(v[:i] + "+other")
	}
	toks := Tokens(v)
	for i, tk := range toks {
		repl := func(s string) {
			c := append([]string{}, toks...)
			c[i] = s
			add(strings.Join(c, ""))
		}
		switch {
		case isDigits(tk):
			repl("0" + tk)
			repl(tk + ".0")
			repl(tk + ".0.0")
			repl(strings.TrimLeft(tk, "0") + "")
			if tk != "0" {
				repl("00" + tk)
			}
		case isLetters(tk):
			lo := strings.ToLower(tk)
			if lo == tk {
				repl(strings.ToUpper(tk))
			} else {
				repl(lo)
			}
			for _, pr := range [][2]string{{"alpha", "a"}, {"beta", "b"}, {"milestone", "m"}, {"rc", "cr"}, {"rc", "c"}, {"ga", "final"},
				{"final", "release"}, {"post", "rev"}, {"post", "r"}, {"RC", "rc"}, {"patch", "pl"}, {"milestone", "M"}} {
				if lo == pr[0] {
					repl(pr[1])
				}
				if lo == pr[1] {
					repl(pr[0])
				}
			}
		case tk == "." || tk == "-" || tk == "_":
			repl(".")
			repl("-")
			repl("")
			repl("_")
		}
	}
	seen := map[string]bool{v: true}
	var out []string
	for _, c := range cands {
		if c == "" || seen[c] {
			continue
		}
		seen[c] = true
		o, err := e.NewVersion(c)
		if err != nil {
			continue
		}
		if base.Compare(o) == 0 && o.Compare(base) == 0 {
			out = append(out, c)
		}
	}
	return out
}

// lengthTargets are total lengths around which parsers tend to have limits or fixed-size buffers.
var lengthTargets = []int{32, 64, 100, 128, 200, 255, 256, 257, 300, 512, 1000, 1024, 4096}

// Lengthen extends an accepted version by a long accepted tail so that its
// length lands on (or up to three characters below) one of lengthTargets; with
// a few characters of padding the padded text then crosses the target while
// the trimmed text does not. It returns s unchanged when no extension is
// accepted by the ecosystem.
func Lengthen(t *rapid.T, e eco.Eco, s, l string) string {
	return lengthenUpTo(t, e, s, l, len(lengthTargets))
}

// lengthenUpTo is Lengthen restricted to the first n length targets.
func lengthenUpTo(t *rapid.T, e eco.Eco, s, l string, n int) string {
	return LengthenTo(t, e, s, l, lengthTargets[rapid.IntRange(0, n-1).Draw(t, l+"T")]-rapid.IntRange(0, 3).Draw(t, l+"d"))
}

// LengthenTo extends an accepted version by an accepted tail to exactly target characters (s is returned unchanged
// when it is already that long or no extension is accepted).
func LengthenTo(t *rapid.T, e eco.Eco, s, l string, target int) string {
	if len(s)+2 >= target {
		return s
	}
	seps := []string{"-", ".", "+", "_", "~", "", "-a.", ".a", "_p"}
	fills := []string{"a", "1", "a1", "x0", "9"}
	si := rapid.IntRange(0, len(seps)-1).Draw(t, l+"S")
	fi := rapid.IntRange(0, len(fills)-1).Draw(t, l+"F")
	for k := 0; k < len(seps); k++ {
		sep := seps[(si+k)%len(seps)]
		for m := 0; m < len(fills); m++ {
			fill := fills[(fi+m)%len(fills)]
			n := target - len(s) - len(sep)
			if n < 1 {
				continue
			}
			c := s + sep + strings.Repeat(fill, n/len(fill)+1)[:n]
			if accepted(e, c) {
				return c
			}
		}
	}
	return s
}
