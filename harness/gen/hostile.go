package gen

import (
	"strings"

	"pgregory.net/rapid"
)

// syntax chunks used by corruptions and hostile templates.
var chunks = []string{">=", "<=", "!=", "==", "===", "~>", "~=", "^", "~", "||", " - ", ".*", ".x", "*", "x", "X", " ", "  ", ",", "|", "[", "]", "(", ")",
	"@", "@dev", ":", "!", "+", "-", "_", ".", "..", "v", "=", "<", ">", "0", "1", "00", "a", "rc", "dev-", "-r", "99999999999999999999999",
	"-0.20230101000000-abcdefabcdef", "\x00", "\xff", "\t", "\n", "é", "１", "٣", "vers:", "/", "alpha", "-SNAPSHOT", "and", " and "}

// Corrupt applies one random edit to s: insert/replace/delete/duplicate/truncate.
func Corrupt(t *rapid.T, s, l string) string {
	if s == "" {
		return Pick(t, l+"c", chunks...)
	}
	pos := rapid.IntRange(0, len(s)).Draw(t, l+"pos")
	switch rapid.IntRange(0, 5).Draw(t, l+"op") {
	case 0:
		return s[:pos] + Pick(t, l+"c", chunks...) + s[pos:]
	case 1:
		end := pos + rapid.IntRange(0, 2).Draw(t, l+"len")
		if end > len(s) {
			end = len(s)
		}
		return s[:pos] + Pick(t, l+"c", chunks...) + s[end:]
	case 2:
		end := pos + rapid.IntRange(1, 3).Draw(t, l+"len")
		if end > len(s) {
			end = len(s)
		}
		return s[:pos] + s[end:]
	case 3:
		return s[:pos] + s[pos:] + s[pos:]
	case 4:
		return s[:pos]
	default:
		return strings.Repeat(s[:pos], 2) + s[pos:]
	}
}
