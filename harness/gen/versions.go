package gen

import (
	"fmt"
	"strings"

	"pgregory.net/rapid"
)

// Version draws a version string from ecosystem eco's accepted language.
// The grammars were written from each parser's regular expression and
// validation code ("sound first"); props/selftest checks the acceptance rate.
func Version(t *rapid.T, eco, label string) string {
	f, ok := versionGens[eco]
	if !ok {
		panic("no version generator for " + eco)
	}
	return f(t, label)
}

var versionGens = map[string]func(*rapid.T, string) string{
	"alpine": alpineV, "alpm": alpmV, "apache": apacheV, "cargo": cargoV, "composer": composerV, "conan": conanV,
	"cran": cranV, "debian": debianV, "gem": gemV, "gentoo": gentooV, "github": githubV, "golang": golangV,
	"hex": hexV, "mattermost": mattermostV, "maven": mavenV, "npm": npmV, "nuget": nugetV, "pypi": pypiV,
	"rpm": rpmV, "semver": semverV,
}

var atoiNum = NumOpts{LeadingZeros: true}
var strictNum = NumOpts{}
var bigNum = NumOpts{LeadingZeros: true, Big: true}

// ---------------------------------------------------------------- alpine

var alpineSuffixes = []string{"alpha", "beta", "pre", "rc", "cvs", "svn", "git", "hg", "p"}

// AlpineGrammar draws a version matching alpine's structured grammar.
func AlpineGrammar(t *rapid.T, l string) string {
	var sb strings.Builder
	sb.WriteString(Dotted(t, l+"n", 1, 5, atoiNum))
	if Chance(t, l+"L", 1, 4) {
		sb.WriteString(Pick(t, l+"l", "a", "b", "c", "z"))
	}
	ns := rapid.IntRange(0, 3).Draw(t, l+"S")
	if Chance(t, l+"S0", 1, 2) {
		ns = 0
	}
	for i := 0; i < ns; i++ {
		name := Pick(t, fmt.Sprintf("%ss%d", l, i), alpineSuffixes...)
		if Chance(t, fmt.Sprintf("%su%d", l, i), 1, 12) {
			name = Pick(t, fmt.Sprintf("%sx%d", l, i), "foo", "bar", "zzz")
		}
		sb.WriteString("_" + name)
		if Chance(t, fmt.Sprintf("%sn%d", l, i), 2, 3) {
			sb.WriteString(Counter(t, fmt.Sprintf("%sv%d", l, i)))
		}
	}
	if Chance(t, l+"H", 1, 10) {
		sb.WriteString("~" + Pick(t, l+"h", "abc123", "0", "deadbeef", "abc124", "f"))
	}
	if Chance(t, l+"R", 1, 3) {
		sb.WriteString("-r" + Counter(t, l+"r"))
	}
	return sb.String()
}

// AlpineFallback draws a string alpine accepts only through its
// "contains a digit" string fallback.
func AlpineFallback(t *rapid.T, l string) string {
	base := Dotted(t, l+"n", 1, 3, strictNum)
	return base + Pick(t, l+"f", "bc", "_", "-r", "A", "..1", "_alpha-1", "-1", "+b", "ab_p1", "~xyz", "_rc1.2", " 2")
}

func alpineV(t *rapid.T, l string) string {
	if Chance(t, l+"F", 1, 10) {
		return AlpineFallback(t, l)
	}
	return AlpineGrammar(t, l)
}

// ---------------------------------------------------------------- alpm

func alpmSeg(t *rapid.T, l string) string {
	switch rapid.IntRange(0, 9).Draw(t, l+"k") {
	case 0, 1, 2, 3, 4:
		return Num(t, l+"d", bigNum)
	case 5, 6:
		return Pick(t, l+"w", "a", "b", "alpha", "beta", "rc", "pre", "p", "git", "r", "A", "z", "a", "b", "rc", "RC", "é", "Ω")
	case 7:
		return SmallNum(t, l+"d") + Pick(t, l+"w", "a", "b", "rc", "beta", "pre", "p")
	case 8:
		return Pick(t, l+"w", "a", "rc", "r", "alpha") + SmallNum(t, l+"d")
	default:
		return SmallNum(t, l+"d") + Pick(t, l+"w", "a", "rc") + SmallNum(t, l+"e")
	}
}

// AlpmPkgver draws a pkgver (no epoch, no pkgrel).
func AlpmPkgver(t *rapid.T, l string) string {
	var sb strings.Builder
	sb.WriteString(SmallNum(t, l+"first"))
	n := rapid.IntRange(0, 4).Draw(t, l+"N")
	for i := 0; i < n; i++ {
		sep := Pick(t, fmt.Sprintf("%ssep%d", l, i), ".", ".", ".", ".", "_", "+", "", "..")
		seg := alpmSeg(t, fmt.Sprintf("%sseg%d", l, i))
		if sep == "" && isDigits(seg[:1]) {
			sep = "."
		}
		sb.WriteString(sep + seg)
	}
	return sb.String()
}

func alpmV(t *rapid.T, l string) string {
	var sb strings.Builder
	if Chance(t, l+"E", 1, 6) {
		sb.WriteString(Pick(t, l+"e", "0", "1", "2", "10", "010", "2147483647", "4294967296", "4294967297") + ":")
	}
	sb.WriteString(AlpmPkgver(t, l))
	if Chance(t, l+"R", 1, 2) {
		sb.WriteString("-" + Counter(t, l+"r"))
	}
	return sb.String()
}

// ---------------------------------------------------------------- apache

func apacheV(t *rapid.T, l string) string {
	s := Dotted(t, l+"n", 3, 3, atoiNum)
	switch rapid.IntRange(0, 9).Draw(t, l+"q") {
	case 0, 1, 2, 3:
		return s
	case 4, 5, 6, 7:
		q := MixCase(t, l+"c", Pick(t, l+"w", "alpha", "beta", "M", "milestone", "RC", "rc", "SNAPSHOT", "dev", "foo", "bar", "final", "GA", "release"))
		if Chance(t, l+"hasn", 1, 2) {
			q += SmallNum(t, l+"qn")
		}
		return s + "-" + q
	case 8:
		return s + "-" + Pick(t, l+"w", "x", "rel", "RC") + "v" + Pick(t, l+"d", "20230415", "20230416", "20221231")
	default:
		return s + "-" + Pick(t, l+"w", "milestone", "M", "m") + SmallNum(t, l+"qn")
	}
}

// ---------------------------------------------------------------- semver family

var semIDs = []string{"0", "1", "2", "10", "11", "123456789012345678", "a", "b", "rc", "alpha", "beta", "RC", "Alpha",
	"a-b", "-5", "-", "x", "-a", "1a", "a1", "0a", "rc1", "rc2", "rc10", "dev", "pre", "snapshot", "X", "next",
	// numeric identifiers beyond 64 bits (outside C08's quantifier, inside C01's) and digit-leading alphanumerics between them
	"99999999999999999999", "100000000000000000000", "18446744073709551616", "5a", "9z", "9223372036854775807", "9223372036854775808", "9223372036854775809"}

// SemIdent draws one pre-release identifier (never a numeric identifier with
// a leading zero).
func SemIdent(t *rapid.T, l string) string {
	if Chance(t, l+"r", 1, 8) {
		return fmt.Sprint(rapid.IntRange(0, 1000).Draw(t, l))
	}
	return Pick(t, l, semIDs...)
}

// SemPre draws 1..n dot-separated identifiers.
func SemPre(t *rapid.T, l string, max int) string {
	n := rapid.IntRange(1, max).Draw(t, l+"N")
	if n > 2 && Chance(t, l+"short", 1, 2) {
		n = 1 + n%2
	}
	ids := make([]string, n)
	for i := range ids {
		ids[i] = SemIdent(t, fmt.Sprintf("%s%d", l, i))
	}
	return strings.Join(ids, ".")
}

type semOpts struct {
	prefixes  []string // possible prefixes, "" included by caller
	minC      int
	maxC      int
	num       NumOpts
	lowerOnly bool
	noBuild   bool
}

func semLike(t *rapid.T, l string, o semOpts) string {
	var sb strings.Builder
	if len(o.prefixes) > 0 && Chance(t, l+"P", 1, 3) {
		sb.WriteString(Pick(t, l+"p", o.prefixes...))
	}
	sb.WriteString(Dotted(t, l+"n", o.minC, o.maxC, o.num))
	if Chance(t, l+"PRE", 1, 2) {
		p := SemPre(t, l+"pre", 4)
		if o.lowerOnly {
			p = strings.ToLower(p)
		}
		sb.WriteString("-" + p)
	}
	if !o.noBuild && Chance(t, l+"B", 1, 5) {
		b := Pick(t, l+"b", "build", "1", "b.1", "001", "exp.sha.5114f85", "-", "a-b", "incompatible")
		if o.lowerOnly {
			b = strings.ToLower(b)
		}
		sb.WriteString("+" + b)
	}
	return sb.String()
}

func cargoV(t *rapid.T, l string) string {
	return semLike(t, l, semOpts{minC: 3, maxC: 3, num: atoiNum})
}
func semverV(t *rapid.T, l string) string {
	return semLike(t, l, semOpts{minC: 3, maxC: 3, num: strictNum})
}
func npmV(t *rapid.T, l string) string {
	return semLike(t, l, semOpts{prefixes: []string{"v", "=", "=v", "v="}, minC: 3, maxC: 3, num: atoiNum})
}
func nugetV(t *rapid.T, l string) string {
	return semLike(t, l, semOpts{prefixes: []string{"v"}, minC: 1, maxC: 4, num: atoiNum})
}
func hexV(t *rapid.T, l string) string {
	if Chance(t, l+"partial", 1, 8) {
		return Dotted(t, l+"n", 2, 2, atoiNum)
	}
	return semLike(t, l, semOpts{minC: 3, maxC: 3, num: atoiNum})
}

// pseudo-version timestamps (valid calendar instants) and revisions.
// (the last entries form Go's "no version information" placeholder v0.0.0-00010101000000-000000000000)
var pseudoTS = []string{"20230101000000", "20230101000001", "20221231235959", "20240229120000", "20190101000000", "00010101000000", "00010101000000"}
var pseudoRev = []string{"abcdefabcdef", "0123456789ab", "ffffffffffff", "000000000000", "000000000000", "000000000001"}

// GolangPseudo draws one of the three pseudo-version forms.
func GolangPseudo(t *rapid.T, l string) string {
	ts := Pick(t, l+"ts", pseudoTS...)
	rev := Pick(t, l+"rev", pseudoRev...)
	switch rapid.IntRange(0, 2).Draw(t, l+"form") {
	case 0:
		return fmt.Sprintf("v%s.0.0-%s-%s", SmallNum(t, l+"M"), ts, rev)
	case 1:
		pre := Pick(t, l+"pre", "rc1", "alpha", "beta2", "0", "rc", "pre", "1", "a-b")
		return fmt.Sprintf("v%s-%s.0.%s-%s", Dotted(t, l+"n", 3, 3, strictNum), pre, ts, rev)
	default:
		return fmt.Sprintf("v%s-0.%s-%s", Dotted(t, l+"n", 3, 3, strictNum), ts, rev)
	}
}

func golangV(t *rapid.T, l string) string {
	if Chance(t, l+"pseudo", 1, 5) {
		return GolangPseudo(t, l)
	}
	return semLike(t, l, semOpts{prefixes: []string{"v", "v", "v"}, minC: 3, maxC: 3, num: atoiNum})
}

// ---------------------------------------------------------------- composer

func composerV(t *rapid.T, l string) string {
	switch rapid.IntRange(0, 19).Draw(t, l+"kind") {
	case 0:
		return "dev-" + Pick(t, l+"br", "main", "master", "feature-x", "next", "1.x", "bugfix/foo")
	case 1:
		return Pick(t, l+"br", "main", "master", "develop", "trunk", "feature/foo", "feature-x", "fix-1", "release-1.0", "1.x-dev", "v2-dev", "hotfix/a.b")
	}
	var sb strings.Builder
	if Chance(t, l+"v", 1, 5) {
		sb.WriteString("v")
	}
	sb.WriteString(Dotted(t, l+"n", 1, 4, atoiNum))
	switch rapid.IntRange(0, 5).Draw(t, l+"stab") {
	case 0, 1:
		sb.WriteString("-" + Pick(t, l+"w", "alpha", "beta", "RC", "a", "b", "rc", "dev", "patch"))
		if Chance(t, l+"hasn", 2, 3) {
			sb.WriteString(Pick(t, l+"dot", "", ".") + SmallNum(t, l+"sn"))
		}
	case 2:
		sb.WriteString(Pick(t, l+"w", "alpha", "beta", "RC", "a", "b", "rc", "dev", "pl"))
		if Chance(t, l+"hasn", 2, 3) {
			sb.WriteString(SmallNum(t, l+"sn"))
		}
	}
	if Chance(t, l+"B", 1, 8) {
		sb.WriteString("+" + Pick(t, l+"b", "build", "1", "b.1", "exp-sha"))
	}
	return sb.String()
}

// ---------------------------------------------------------------- conan

func conanPart(t *rapid.T, l string) string {
	switch rapid.IntRange(0, 9).Draw(t, l+"k") {
	case 0, 1, 2, 3, 4, 5:
		return Num(t, l+"d", bigNum)
	case 6:
		return MixCase(t, l+"c", Pick(t, l+"w", "a", "b", "z", "alpha", "x"))
	case 7:
		return SmallNum(t, l+"d") + MixCase(t, l+"c", Pick(t, l+"w", "a", "b", "rc"))
	default:
		return SmallNum(t, l+"d")
	}
}

func conanV(t *rapid.T, l string) string {
	n := rapid.IntRange(1, 5).Draw(t, l+"N")
	parts := make([]string, n)
	for i := range parts {
		parts[i] = conanPart(t, fmt.Sprintf("%sp%d", l, i))
	}
	s := strings.Join(parts, ".")
	if Chance(t, l+"PRE", 1, 3) {
		s += "-" + MixCase(t, l+"pc", strings.ToLower(SemPre(t, l+"pre", 3)))
	}
	if Chance(t, l+"B", 1, 6) {
		s += "+" + Pick(t, l+"b", "build", "1", "b.1", "sha-5114f85")
	}
	return s
}

// ---------------------------------------------------------------- cran

func cranV(t *rapid.T, l string) string {
	n := rapid.IntRange(2, 5).Draw(t, l+"N")
	var sb strings.Builder
	for i := 0; i < n; i++ {
		if i > 0 {
			sb.WriteString(Pick(t, fmt.Sprintf("%ss%d", l, i), ".", ".", ".", "-"))
		}
		sb.WriteString(Num(t, fmt.Sprintf("%sn%d", l, i), atoiNum))
	}
	return sb.String()
}

// ---------------------------------------------------------------- debian

var debPieces = []string{".", ".", ".", "+", "~", "~~", "-", "a", "b", "A", "z", "rc", "beta", "+b", "~rc", "+dfsg", "ubuntu", "+really", ".~", "~~a", ".", "+", "a", "é", "Ω", "١"}

// DebianRun draws a run-structured string over [0-9A-Za-z.+~] (and '-' when hyphen is true).
func DebianRun(t *rapid.T, l string, maxPieces int, hyphen bool) string {
	var sb strings.Builder
	n := rapid.IntRange(0, maxPieces).Draw(t, l+"N")
	for i := 0; i < n; i++ {
		if Chance(t, fmt.Sprintf("%sd%d", l, i), 1, 2) {
			sb.WriteString(Num(t, fmt.Sprintf("%sn%d", l, i), bigNum))
		} else {
			p := Pick(t, fmt.Sprintf("%sp%d", l, i), debPieces...)
			if p == "-" && !hyphen {
				p = "."
			}
			sb.WriteString(p)
		}
	}
	return sb.String()
}

func debianV(t *rapid.T, l string) string {
	var sb strings.Builder
	if Chance(t, l+"E", 1, 6) {
		sb.WriteString(Pick(t, l+"e", "0", "1", "2", "10", "010", "2147483647", "4294967296", "4294967297") + ":")
	}
	sb.WriteString(SmallNum(t, l+"first"))
	hasRev := Chance(t, l+"R", 1, 3)
	sb.WriteString(DebianRun(t, l+"u", 6, hasRev))
	if hasRev {
		rev := DebianRun(t, l+"r", 3, false)
		if rev == "" {
			rev = SmallNum(t, l+"rn")
		}
		sb.WriteString("-" + rev)
	}
	return sb.String()
}

// ---------------------------------------------------------------- gem

var gemWords = []string{"a", "b", "rc", "pre", "alpha", "beta", "dev", "x", "z"}

func gemV(t *rapid.T, l string) string {
	var sb strings.Builder
	if Chance(t, l+"v", 1, 8) {
		sb.WriteString("v")
	}
	sb.WriteString(Dotted(t, l+"n", 1, 5, bigNum))
	upper := Chance(t, l+"upper", 1, 8)
	w := func(lbl string) string {
		s := Pick(t, lbl, gemWords...)
		if upper {
			return strings.ToUpper(s)
		}
		return s
	}
	n := rapid.IntRange(0, 3).Draw(t, l+"G")
	if Chance(t, l+"G0", 1, 3) {
		n = 0
	}
	for i := 0; i < n; i++ {
		il := fmt.Sprintf("%sg%d", l, i)
		if Chance(t, il+"dot", 2, 3) {
			// .<letters>[N] — only valid directly after the numeric head or another such group
			if strings.ContainsAny(sb.String(), "-") {
				sb.WriteString("." + w(il+"w"))
				continue
			}
			sb.WriteString("." + w(il+"w"))
			if Chance(t, il+"n", 1, 2) {
				sb.WriteString(SmallNum(t, il+"d"))
			}
		} else {
			sb.WriteString("-" + w(il+"w"))
			if Chance(t, il+"n", 1, 2) {
				sb.WriteString(Pick(t, il+"sep", ".", "") + SmallNum(t, il+"d"))
			}
		}
	}
	if Chance(t, l+"B", 1, 12) {
		sb.WriteString("+" + Pick(t, l+"b", "build", "1", "b.1"))
	}
	return sb.String()
}

// ---------------------------------------------------------------- gentoo

func gentooV(t *rapid.T, l string) string {
	var sb strings.Builder
	n := rapid.IntRange(1, 5).Draw(t, l+"N")
	if Chance(t, l+"long", 1, 20) {
		n = rapid.IntRange(6, 11).Draw(t, l+"NN")
	}
	parts := make([]string, n)
	for i := range parts {
		parts[i] = Num(t, fmt.Sprintf("%sn%d", l, i), atoiNum)
	}
	sb.WriteString(strings.Join(parts, "."))
	if Chance(t, l+"L", 1, 4) {
		sb.WriteString(Pick(t, l+"l", "a", "b", "z", "A", "B"))
	}
	if Chance(t, l+"S", 1, 2) {
		sb.WriteString("_" + Pick(t, l+"s", "alpha", "beta", "pre", "rc", "p"))
		if Chance(t, l+"sn", 2, 3) {
			sb.WriteString(Counter(t, l+"sv"))
		}
	}
	if Chance(t, l+"R", 1, 3) {
		sb.WriteString("-r" + Counter(t, l+"r"))
	}
	return sb.String()
}

// ---------------------------------------------------------------- github

// GithubDate draws a date-shaped version.
func GithubDate(t *rapid.T, l string) string {
	y := Pick(t, l+"y", "2023", "2024", "1999", "2025")
	m := Pick(t, l+"m", "1", "01", "2", "12", "06")
	d := Pick(t, l+"d", "1", "01", "15", "31", "09")
	return Pick(t, l+"p", "", "", "v") + y + "." + m + "." + d
}

func githubV(t *rapid.T, l string) string {
	if Chance(t, l+"date", 1, 10) {
		return GithubDate(t, l)
	}
	var sb strings.Builder
	sb.WriteString(Pick(t, l+"p", "", "", "v", "v", "release-", "rel-"))
	// avoid accidental date shapes: the first component is kept away from 4 digits
	a := Num(t, l+"n0", atoiNum)
	if len(a) == 4 {
		a = a[:3]
	}
	sb.WriteString(a + "." + Num(t, l+"n1", atoiNum) + "." + Num(t, l+"n2", atoiNum))
	if Chance(t, l+"Q", 1, 2) {
		sb.WriteString(Pick(t, l+"qs", "-", "-", "."))
		sb.WriteString(MixCase(t, l+"c", Pick(t, l+"w", "dev", "alpha", "beta", "rc", "snapshot", "SNAPSHOT", "foo", "pre", "RC")))
		if Chance(t, l+"qn", 1, 2) {
			sb.WriteString(Pick(t, l+"dot", "", ".") + SmallNum(t, l+"qv"))
		}
	}
	return sb.String()
}

// ---------------------------------------------------------------- mattermost

func mattermostV(t *rapid.T, l string) string {
	s := Pick(t, l+"p", "", "v") + Dotted(t, l+"n", 3, 3, strictNum)
	if Chance(t, l+"Q", 1, 2) {
		s += "-" + Pick(t, l+"w", "rc", "rc", "esr")
		if Chance(t, l+"qn", 2, 3) {
			s += Num(t, l+"qv", atoiNum)
		}
	}
	return s
}

// ---------------------------------------------------------------- maven

var mavenQuals = []string{"alpha", "beta", "milestone", "rc", "cr", "snapshot", "ga", "final", "release", "sp", "foo", "bar", "xyz", "a", "b", "m"}

// MavenConventional draws a conventionally shaped Maven version (C12's domain
// plus bare aliases).
func MavenConventional(t *rapid.T, l string) string {
	s := Dotted(t, l+"n", 1, 4, atoiNum)
	if Chance(t, l+"bigc", 1, 25) {
		// multi-digit up to beyond 64 bits (never an all-zero long run: Maven sorts those as big numbers)
		if strings.Count(s, ".") >= 3 {
			s = s[:strings.LastIndex(s, ".")]
		}
		s += "." + Pick(t, l+"bigv", "18446744073709551616", "99999999999999999999", "100000000000000000000", "9223372036854775808", "1234567890123", "123456789012345678", "20000000000000000000")
	}
	sep := func(lbl string) string { return Pick(t, lbl, ".", "-") }
	q := func() string { return MixCase(t, l+"qc", Pick(t, l+"q", mavenQuals...)) }
	switch rapid.IntRange(0, 6).Draw(t, l+"shape") {
	case 0, 1:
	case 2:
		s += sep(l+"s1") + q()
	case 3:
		s += sep(l+"s1") + q() + SmallNum(t, l+"qn")
	case 4:
		s += sep(l+"s1") + q() + sep(l+"s2") + SmallNum(t, l+"qn")
	case 5:
		s += sep(l+"s1") + Pick(t, l+"alias", "a", "b", "m", "A", "M") + Pick(t, l+"an", "1", "2", "10")
	default:
		s += "-" + SmallNum(t, l+"bn")
	}
	return s
}

func mavenV(t *rapid.T, l string) string {
	if Chance(t, l+"conv", 2, 3) {
		return MavenConventional(t, l)
	}
	// free mix of tokens
	var sb strings.Builder
	sb.WriteString(Num(t, l+"first", bigNum))
	n := rapid.IntRange(0, 5).Draw(t, l+"N")
	for i := 0; i < n; i++ {
		il := fmt.Sprintf("%sf%d", l, i)
		sb.WriteString(Pick(t, il+"sep", ".", "-", "", ".", "-", "_", "+"))
		if Chance(t, il+"d", 1, 2) {
			sb.WriteString(Num(t, il+"n", bigNum))
		} else {
			sb.WriteString(MixCase(t, il+"c", Pick(t, il+"q", mavenQuals...)))
		}
	}
	return sb.String()
}

// ---------------------------------------------------------------- pypi

func pypiV(t *rapid.T, l string) string {
	var sb strings.Builder
	if Chance(t, l+"E", 1, 8) {
		sb.WriteString(Pick(t, l+"e", "0", "1", "2", "02", "4294967296", "4294967297") + "!")
	}
	sb.WriteString(Dotted(t, l+"n", 1, 5, atoiNum))
	dot := func(lbl string) string { return Pick(t, lbl, "", ".") }
	if Chance(t, l+"PRE", 1, 3) {
		sb.WriteString(dot(l+"pd") + Pick(t, l+"pw", "a", "b", "rc", "alpha", "beta", "c") + Counter(t, l+"pn"))
	}
	if Chance(t, l+"POST", 1, 4) {
		sb.WriteString(dot(l+"od") + Pick(t, l+"ow", "post", "rev", "r") + Counter(t, l+"on"))
	}
	if Chance(t, l+"DEV", 1, 4) {
		sb.WriteString(dot(l+"dd") + "dev" + Counter(t, l+"dn"))
	}
	if Chance(t, l+"LOC", 1, 6) {
		sb.WriteString("+" + Pick(t, l+"loc", "abc", "1", "abc.1", "1.abc", "2", "ubuntu-1", "a_b", "ABC", "01", "abc.10", "abc.9"))
	}
	return sb.String()
}

// ---------------------------------------------------------------- rpm

var rpmPieces = []string{".", ".", ".", "+", "_", "~", "^", "~~", "a", "b", "A", "z", "rc", "beta", "git", "~rc", "^git", "el", "fc", "..", "._", "^~", ".", "a", "~", "é", "Ω", "١"}

// RpmRun draws a run-structured string over [0-9A-Za-z._+~^].
func RpmRun(t *rapid.T, l string, maxPieces int) string {
	var sb strings.Builder
	n := rapid.IntRange(0, maxPieces).Draw(t, l+"N")
	for i := 0; i < n; i++ {
		if Chance(t, fmt.Sprintf("%sd%d", l, i), 1, 2) {
			sb.WriteString(Num(t, fmt.Sprintf("%sn%d", l, i), bigNum))
		} else {
			sb.WriteString(Pick(t, fmt.Sprintf("%sp%d", l, i), rpmPieces...))
		}
	}
	return sb.String()
}

func rpmV(t *rapid.T, l string) string {
	var sb strings.Builder
	if Chance(t, l+"E", 1, 6) {
		sb.WriteString(Pick(t, l+"e", "0", "1", "2", "10", "010", "2147483647", "4294967296", "4294967297") + ":")
	}
	sb.WriteString(SmallNum(t, l+"first"))
	sb.WriteString(RpmRun(t, l+"v", 6))
	if Chance(t, l+"R", 1, 3) {
		sb.WriteString("-" + RpmRun(t, l+"r", 3))
	}
	return sb.String()
}
