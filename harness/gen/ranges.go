package gen

import (
	"fmt"
	"strings"

	"pgregory.net/rapid"

	"verifharness/eco"
)

// Cmp is one comparator applied to a bound version.
type Cmp struct {
	Op    string
	Bound string
}

// Sem returns the canonical meaning of the operator spelling: one of
// "=", "!=", "<", "<=", ">", ">=".
func (c Cmp) Sem() string {
	switch c.Op {
	case "==":
		return "="
	case "<>":
		return "!="
	case "<<":
		return "<"
	case ">>":
		return ">"
	}
	return c.Op
}

// Holds evaluates the comparator on sign = sign(Compare(v, bound)).
func (c Cmp) Holds(sign int) bool {
	switch c.Sem() {
	case "=":
		return sign == 0
	case "!=":
		return sign != 0
	case "<":
		return sign < 0
	case "<=":
		return sign <= 0
	case ">":
		return sign > 0
	case ">=":
		return sign >= 0
	}
	panic("bad operator " + c.Op)
}

// RangeSyntax describes the comparator syntax of one ecosystem (validated on
// the baseline, DESIGN.md appendix A).
type RangeSyntax struct {
	Ops  []string // comparator spellings
	And  []string // AND separators
	Or   []string // OR separators (nil = none)
	SpOp bool     // a space may follow the operator
}

var eq5 = []string{"=", "<", "<=", ">", ">="}
var eq6 = []string{"=", "!=", "<", "<=", ">", ">="}

// Syntax is the comparator syntax table.
var Syntax = map[string]RangeSyntax{
	"alpine":     {Ops: eq6, And: []string{" ", "  "}},
	"alpm":       {Ops: eq5, And: []string{" ", " and ", "  "}},
	"apache":     {Ops: eq5, And: []string{" ", "  "}},
	"cargo":      {Ops: eq6, And: []string{",", ", ", " , "}, SpOp: true},
	"composer":   {Ops: []string{"=", "==", "!=", "<>", "<", "<=", ">", ">="}, And: []string{" ", ",", ", ", "  ", " ,  "}, Or: []string{"||", " || ", "  ||  "}},
	"conan":      {Ops: eq6, And: []string{",", " ", ", ", "  "}, Or: []string{"||", " || ", "  ||  "}, SpOp: true},
	"cran":       {Ops: eq6, And: []string{",", ", "}, SpOp: true},
	"debian":     {Ops: []string{"=", "!=", "<", "<=", ">", ">=", "<<", ">>"}, And: []string{",", ", "}, SpOp: true},
	"gem":        {Ops: eq6, And: []string{",", ", "}, SpOp: true},
	"gentoo":     {Ops: eq6, And: []string{" ", ",", ", ", "  "}},
	"github":     {Ops: eq5, And: []string{" ", "  "}},
	"golang":     {Ops: eq6, And: []string{" ", "  "}},
	"hex":        {Ops: eq5, And: []string{" ", " and ", "  "}},
	"mattermost": {Ops: eq5, And: []string{" ", "  "}},
	"npm":        {Ops: eq5, And: []string{" ", "  "}, Or: []string{"||", " || ", "  ||  "}},
	"nuget":      {Ops: eq6, And: []string{",", ", "}, SpOp: true},
	"pypi":       {Ops: []string{"==", "!=", "<", "<=", ">", ">="}, And: []string{",", ", "}, SpOp: true},
	"rpm":        {Ops: eq6, And: []string{",", " ", ", ", "  "}},
	"semver":     {Ops: eq6, And: []string{",", " ", ", ", "  "}},
}

// BoundInScope implements C02's scope rule: a bound whose text begins with a
// comparator character or contains that ecosystem's separator characters
// (space, comma, '|') is out of scope because the range text would be
// ambiguous. Leading/trailing whitespace never occurs in generated versions.
func BoundInScope(ecoName, v string) bool {
	if v == "" || strings.ContainsAny(v[:1], "=!<>~^") {
		return false
	}
	if strings.ContainsAny(v, " ,|\t") {
		return false
	}
	return true
}

// CmpRange is a generated comparator range: OR of AND groups.
type CmpRange struct {
	Groups [][]Cmp
	Text   string
}

// Bounds returns all bound strings.
func (r CmpRange) Bounds() []string {
	var out []string
	for _, g := range r.Groups {
		for _, c := range g {
			out = append(out, c.Bound)
		}
	}
	return out
}

// DrawBound draws an in-scope bound near base.
func DrawBound(t *rapid.T, e eco.Eco, base, l string) string {
	for try := 0; try < 5; try++ {
		var v string
		tl := fmt.Sprintf("%s%d", l, try)
		switch rapid.IntRange(0, 4).Draw(t, tl+"k") {
		case 0:
			v = base
		case 1, 2, 3:
			v = Neighbor(t, e, base, tl+"nb")
		default:
			v = Version(t, e.Name, tl+"fresh")
		}
		if BoundInScope(e.Name, v) {
			return v
		}
	}
	return ""
}

// DrawCmpRange draws a comparator range of ecosystem e around base.
// maxGroups/maxCmps bound the shape. ok=false when no in-scope bound was found.
func DrawCmpRange(t *rapid.T, e eco.Eco, base, l string, maxGroups, maxCmps int) (CmpRange, bool) {
	sx, ok := Syntax[e.Name]
	if !ok {
		return CmpRange{}, false
	}
	ng := 1
	if len(sx.Or) > 0 && maxGroups > 1 {
		ng = rapid.IntRange(1, maxGroups).Draw(t, l+"NG")
	}
	// now and then a long list: many OR groups or many comparators in one group (code may switch to another
	// algorithm - an index, a set, a binary search - above some length)
	longGroups, longCmps := false, false
	if maxGroups > 1 || maxCmps > 1 {
		switch rapid.IntRange(0, 39).Draw(t, l+"LONG") { // (middle values: rapid favours the ends of a range)
		case 17:
			longGroups = len(sx.Or) > 0 && maxGroups > 1
		case 23:
			longCmps = maxCmps > 1
		}
	}
	if longGroups {
		ng = rapid.IntRange(5, 14).Draw(t, l+"NGL")
	}
	// half of the long lists use one operator throughout (nine exclusions, nine lower bounds, ...)
	uniformOp := ""
	if (longGroups || longCmps) && Chance(t, l+"UNI", 1, 2) {
		uniformOp = Pick(t, l+"uop", sx.Ops...)
	}
	var r CmpRange
	var gtexts []string
	for g := 0; g < ng; g++ {
		nc := rapid.IntRange(1, maxCmps).Draw(t, fmt.Sprintf("%sNC%d", l, g))
		if longCmps && g == 0 {
			nc = rapid.IntRange(5, 14).Draw(t, l+"NCL")
		} else if longGroups && nc > 2 {
			nc = 2
		}
		var grp []Cmp
		var ctexts []string
		for c := 0; c < nc; c++ {
			cl := fmt.Sprintf("%sg%dc%d", l, g, c)
			b := DrawBound(t, e, base, cl+"b")
			if b == "" {
				return CmpRange{}, false
			}
			op := Pick(t, cl+"op", sx.Ops...)
			if (longCmps || longGroups) && uniformOp != "" {
				op = uniformOp
			}
			sp := ""
			if sx.SpOp && Chance(t, cl+"sp", 1, 6) {
				sp = " "
			}
			grp = append(grp, Cmp{Op: op, Bound: b})
			ctexts = append(ctexts, op+sp+b)
		}
		r.Groups = append(r.Groups, grp)
		and := Pick(t, fmt.Sprintf("%sand%d", l, g), sx.And...)
		gt := strings.Join(ctexts, and)
		if e.Name == "nuget" && nc == 1 {
			gt += ","
		}
		gtexts = append(gtexts, gt)
	}
	if ng > 1 {
		r.Text = strings.Join(gtexts, Pick(t, l+"or", sx.Or...))
	} else {
		r.Text = gtexts[0]
	}
	return r, true
}

// RangeInfo describes a generated range of the full grammar.
type RangeInfo struct {
	Text string
	// Conjunctive is false when the range uses an OR, a '!=' style exclusion,
	// an identity operator (pypi ===) or a composer stability flag; C20's
	// convexity claim covers only conjunctive ranges.
	Conjunctive bool
	Kind        string
}

func plainNums(t *rapid.T, l string, n int) []string {
	out := make([]string, n)
	for i := range out {
		out[i] = Pick(t, fmt.Sprintf("%s%d", l, i), "0", "0", "1", "1", "2", "3", "9", "10")
	}
	return out
}

// DrawAnyRange draws a range from the full range grammar of e (comparators,
// shorthands, brackets, wildcards) built around base. ok=false if none could
// be built.
func DrawAnyRange(t *rapid.T, e eco.Eco, base, l string) (RangeInfo, bool) {
	name := e.Name
	short := func() (RangeInfo, bool) {
		nb := func(s string) string { return Neighbor(t, e, base, l+s) }
		pn := plainNums(t, l+"pn", 4)
		x, y, z, w := pn[0], pn[1], pn[2], pn[3]
		switch name {
		case "npm":
			switch rapid.IntRange(0, 8).Draw(t, l+"sk") {
			case 0:
				return RangeInfo{Text: "^" + strings.TrimLeft(base, "=v"), Conjunctive: true, Kind: "caret"}, true
			case 1:
				return RangeInfo{Text: "~" + strings.TrimLeft(base, "=v"), Conjunctive: true, Kind: "tilde"}, true
			case 2:
				return RangeInfo{Text: x + "." + Pick(t, l+"x", "x", "X", "*"), Conjunctive: true, Kind: "xrange"}, true
			case 3:
				return RangeInfo{Text: x + "." + y + "." + Pick(t, l+"x", "x", "X", "*"), Conjunctive: true, Kind: "xrange"}, true
			case 4:
				return RangeInfo{Text: "*", Conjunctive: true, Kind: "star"}, true
			case 5:
				return RangeInfo{Text: strings.TrimLeft(base, "=") + " - " + strings.TrimLeft(nb("h"), "="), Conjunctive: true, Kind: "hyphen"}, true
			case 6:
				return RangeInfo{Text: "^" + x + "." + y + "." + z + " || " + "~" + w + "." + y + "." + z, Conjunctive: false, Kind: "or"}, true
			case 7:
				return RangeInfo{Text: base, Conjunctive: true, Kind: "bare"}, true
			default:
				return RangeInfo{Text: "^" + x + "." + y + "." + z, Conjunctive: true, Kind: "caret"}, true
			}
		case "cargo":
			switch rapid.IntRange(0, 7).Draw(t, l+"sk") {
			case 0:
				return RangeInfo{Text: "^" + base, Conjunctive: true, Kind: "caret"}, true
			case 1:
				return RangeInfo{Text: "~" + base, Conjunctive: true, Kind: "tilde"}, true
			case 2:
				return RangeInfo{Text: Pick(t, l+"op", "^", "~") + x + "." + y, Conjunctive: true, Kind: "partial"}, true
			case 3:
				return RangeInfo{Text: Pick(t, l+"op", "^", "~") + x, Conjunctive: true, Kind: "partial"}, true
			case 4:
				return RangeInfo{Text: x + ".*", Conjunctive: true, Kind: "wildcard"}, true
			case 5:
				return RangeInfo{Text: x + "." + y + ".*", Conjunctive: true, Kind: "wildcard"}, true
			case 6:
				return RangeInfo{Text: "*", Conjunctive: true, Kind: "star"}, true
			default:
				return RangeInfo{Text: base, Conjunctive: true, Kind: "bare"}, true
			}
		case "composer":
			switch rapid.IntRange(0, 8).Draw(t, l+"sk") {
			case 0:
				return RangeInfo{Text: "^" + base, Conjunctive: true, Kind: "caret"}, true
			case 1:
				return RangeInfo{Text: "~" + base, Conjunctive: true, Kind: "tilde"}, true
			case 2:
				return RangeInfo{Text: Pick(t, l+"op", "^", "~") + x + "." + y, Conjunctive: true, Kind: "partial"}, true
			case 3:
				return RangeInfo{Text: x + "." + Pick(t, l+"x", "*", "x"), Conjunctive: true, Kind: "wildcard"}, true
			case 4:
				return RangeInfo{Text: x + "." + y + "." + Pick(t, l+"x", "*", "x"), Conjunctive: true, Kind: "wildcard"}, true
			case 5:
				return RangeInfo{Text: base + " - " + nb("h"), Conjunctive: true, Kind: "hyphen"}, true
			case 6:
				return RangeInfo{Text: Pick(t, l+"st", "@dev", "@alpha", "@beta", "@RC", ">=1.0@dev"), Conjunctive: false, Kind: "stability"}, true
			case 7:
				return RangeInfo{Text: "*", Conjunctive: true, Kind: "star"}, true
			default:
				return RangeInfo{Text: base, Conjunctive: true, Kind: "bare"}, true
			}
		case "conan":
			switch rapid.IntRange(0, 4).Draw(t, l+"sk") {
			case 0:
				return RangeInfo{Text: Pick(t, l+"op", "~", "^") + base, Conjunctive: true, Kind: "tilde-caret"}, true
			case 1:
				return RangeInfo{Text: Pick(t, l+"op", "~", "^", "~ ", "^ ") + x + "." + y, Conjunctive: true, Kind: "tilde-caret"}, true
			case 2:
				return RangeInfo{Text: Pick(t, l+"op", "~", "^") + x + "." + y + "." + z, Conjunctive: true, Kind: "tilde-caret"}, true
			case 3:
				return RangeInfo{Text: Pick(t, l+"op", "~", "^") + x, Conjunctive: true, Kind: "tilde-caret"}, true
			default:
				return RangeInfo{Text: base, Conjunctive: true, Kind: "bare"}, true
			}
		case "gem":
			switch rapid.IntRange(0, 3).Draw(t, l+"sk") {
			case 0:
				return RangeInfo{Text: "~>" + Pick(t, l+"sp", "", " ") + base, Conjunctive: true, Kind: "pessimistic"}, true
			case 1:
				return RangeInfo{Text: "~> " + x + "." + y, Conjunctive: true, Kind: "pessimistic"}, true
			case 2:
				return RangeInfo{Text: "~>" + x + "." + y + "." + z, Conjunctive: true, Kind: "pessimistic"}, true
			default:
				return RangeInfo{Text: base, Conjunctive: true, Kind: "bare"}, true
			}
		case "hex":
			switch rapid.IntRange(0, 3).Draw(t, l+"sk") {
			case 0:
				return RangeInfo{Text: "~>" + base, Conjunctive: true, Kind: "pessimistic"}, true
			case 1:
				return RangeInfo{Text: "~>" + x + "." + y, Conjunctive: true, Kind: "pessimistic"}, true
			case 2:
				return RangeInfo{Text: "~>" + x + "." + y + "." + z + " and <" + x + ".99.0", Conjunctive: true, Kind: "pessimistic"}, true
			default:
				return RangeInfo{Text: base, Conjunctive: true, Kind: "bare"}, true
			}
		case "pypi":
			switch rapid.IntRange(0, 6).Draw(t, l+"sk") {
			case 0:
				return RangeInfo{Text: "~=" + base, Conjunctive: true, Kind: "compatible"}, true
			case 1:
				return RangeInfo{Text: "~=" + x + "." + y, Conjunctive: true, Kind: "compatible"}, true
			case 2:
				return RangeInfo{Text: "~=" + x + "." + y + "." + z, Conjunctive: true, Kind: "compatible"}, true
			case 3:
				return RangeInfo{Text: "==" + x + "." + y + ".*", Conjunctive: true, Kind: "prefix"}, true
			case 4:
				return RangeInfo{Text: "!=" + x + "." + y + ".*", Conjunctive: false, Kind: "prefix-exclusion"}, true
			case 5:
				return RangeInfo{Text: "===" + base, Conjunctive: false, Kind: "identity"}, true
			default:
				return RangeInfo{Text: base, Conjunctive: true, Kind: "bare"}, true
			}
		case "nuget", "maven":
			lo, hi := base, nb("hi")
			if name == "nuget" {
				lo = strings.TrimPrefix(lo, "v")
			}
			ob := Pick(t, l+"ob", "[", "(")
			cb := Pick(t, l+"cb", "]", ")")
			switch rapid.IntRange(0, 5).Draw(t, l+"sk") {
			case 0:
				return RangeInfo{Text: ob + lo + "," + hi + cb, Conjunctive: true, Kind: "bracket"}, true
			case 1:
				return RangeInfo{Text: ob + lo + "," + cb, Conjunctive: true, Kind: "bracket-open"}, true
			case 2:
				return RangeInfo{Text: ob + "," + hi + cb, Conjunctive: true, Kind: "bracket-open"}, true
			case 3:
				return RangeInfo{Text: "[" + lo + "]", Conjunctive: true, Kind: "bracket-exact"}, true
			case 4:
				return RangeInfo{Text: ob + lo + ", " + hi + cb, Conjunctive: true, Kind: "bracket"}, true
			default:
				return RangeInfo{Text: base, Conjunctive: true, Kind: "bare"}, true
			}
		case "semver":
			if Chance(t, l+"star", 1, 3) {
				return RangeInfo{Text: "*", Conjunctive: true, Kind: "star"}, true
			}
		}
		return RangeInfo{Text: base, Conjunctive: true, Kind: "bare"}, true
	}
	// now and then a construct written in the range syntax of SOME ecosystem, whatever this one is: almost all are
	// rejected here today (a discarded case); one that is accepted - today or after a change that teaches the
	// parser new syntax - is subject to the syntax-agnostic properties (round trip and padding C18, equal versions
	// have equal membership C20). Its meaning is unknown to the harness, so it is never called conjunctive.
	if rapid.IntRange(0, 24).Draw(t, l+"transplant") == 13 {
		b := strings.TrimLeft(base, "=v")
		nbv := strings.TrimLeft(Neighbor(t, e, base, l+"tn"), "=v")
		forms := []string{"~" + b, "=" + b + "*", "^" + b, "~>" + b, "~> " + b, "~=" + b, b + ".*", "==" + b + ".*", "=" + b + ".*", "[" + b + "," + nbv + "]", "(" + b + "," + nbv + ")",
			"[" + b + "],[" + nbv + ",)", "(," + b + "],[" + nbv + ",)", b + " - " + nbv, ">=" + b + " <" + nbv + " || >" + nbv, ">=" + b + " and <" + nbv, b + "+", ">=" + b + ",<" + nbv,
			"!" + b, "<>" + b, "===" + b, "=~" + b, b + ".x", b + "@stable", ">" + b + " <=" + nbv + " !=" + b}
		txt := forms[rapid.IntRange(0, len(forms)-1).Draw(t, l+"tf")]
		if _, err := e.NewRange(txt); err == nil {
			return RangeInfo{Text: txt, Conjunctive: false, Kind: "transplanted-syntax"}, true
		}
		return RangeInfo{}, false
	}
	if _, has := Syntax[name]; has && Chance(t, l+"cmp", 3, 5) {
		r, ok := DrawCmpRange(t, e, base, l+"c", 2, 3)
		if ok {
			conj := len(r.Groups) == 1
			for _, g := range r.Groups {
				for _, c := range g {
					if c.Sem() == "!=" {
						conj = false
					}
				}
			}
			return RangeInfo{Text: r.Text, Conjunctive: conj, Kind: "comparators"}, true
		}
	}
	ri, ok := short()
	if !ok {
		return ri, false
	}
	// the bare and shorthand forms embed base; make sure the text is accepted
	if _, err := e.NewRange(ri.Text); err != nil {
		return ri, false
	}
	return ri, true
}
