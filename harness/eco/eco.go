// Package eco erases the 20 distinct ecosystem types of go-univers to one
// common shape so that generators and properties can be written once.
package eco

import (
	"sort"

	"github.com/alowayed/go-univers/pkg/ecosystem/alpine"
	"github.com/alowayed/go-univers/pkg/ecosystem/alpm"
	"github.com/alowayed/go-univers/pkg/ecosystem/apache"
	"github.com/alowayed/go-univers/pkg/ecosystem/cargo"
	"github.com/alowayed/go-univers/pkg/ecosystem/composer"
	"github.com/alowayed/go-univers/pkg/ecosystem/conan"
	"github.com/alowayed/go-univers/pkg/ecosystem/cran"
	"github.com/alowayed/go-univers/pkg/ecosystem/debian"
	"github.com/alowayed/go-univers/pkg/ecosystem/gem"
	"github.com/alowayed/go-univers/pkg/ecosystem/gentoo"
	"github.com/alowayed/go-univers/pkg/ecosystem/github"
	"github.com/alowayed/go-univers/pkg/ecosystem/golang"
	"github.com/alowayed/go-univers/pkg/ecosystem/hex"
	"github.com/alowayed/go-univers/pkg/ecosystem/mattermost"
	"github.com/alowayed/go-univers/pkg/ecosystem/maven"
	"github.com/alowayed/go-univers/pkg/ecosystem/npm"
	"github.com/alowayed/go-univers/pkg/ecosystem/nuget"
	"github.com/alowayed/go-univers/pkg/ecosystem/pypi"
	"github.com/alowayed/go-univers/pkg/ecosystem/rpm"
	"github.com/alowayed/go-univers/pkg/ecosystem/semver"
	"github.com/alowayed/go-univers/pkg/univers"
)

// Ver is a type-erased version.
type Ver interface {
	Compare(o Ver) int
	String() string
	Raw() any
}

// Rng is a type-erased range.
type Rng interface {
	Contains(v Ver) bool
	String() string
	Raw() any
}

// Eco is a type-erased ecosystem.
type Eco struct {
	Name       string // value of the package's Name constant / Name() method
	NewVersion func(string) (Ver, error)
	NewRange   func(string) (Rng, error)
	// RawNewVersion / RawNewRange return the untyped pair exactly as the
	// library returned it (value may be a typed nil pointer), for C06.
	RawNewVersion func(string) (Ver, bool, error)
	RawNewRange   func(string) (Rng, bool, error)
}

type ver[V univers.Version[V]] struct{ v V }

func (a ver[V]) Compare(o Ver) int { return a.v.Compare(o.(ver[V]).v) }
func (a ver[V]) String() string    { return a.v.String() }
func (a ver[V]) Raw() any          { return a.v }

type rng[V univers.Version[V], VR univers.VersionRange[V]] struct{ r VR }

func (a rng[V, VR]) Contains(v Ver) bool { return a.r.Contains(v.(ver[V]).v) }
func (a rng[V, VR]) String() string      { return a.r.String() }
func (a rng[V, VR]) Raw() any            { return a.r }

func wrap[V interface {
	univers.Version[V]
	comparable
}, VR interface {
	univers.VersionRange[V]
	comparable
}](e univers.Ecosystem[V, VR]) Eco {
	var zeroV V
	var zeroR VR
	return Eco{
		Name: e.Name(),
		NewVersion: func(s string) (Ver, error) {
			v, err := e.NewVersion(s)
			if err != nil {
				return nil, err
			}
			return ver[V]{v}, nil
		},
		NewRange: func(s string) (Rng, error) {
			r, err := e.NewVersionRange(s)
			if err != nil {
				return nil, err
			}
			return rng[V, VR]{r}, nil
		},
		RawNewVersion: func(s string) (Ver, bool, error) {
			v, err := e.NewVersion(s)
			return ver[V]{v}, v == zeroV, err
		},
		RawNewRange: func(s string) (Rng, bool, error) {
			r, err := e.NewVersionRange(s)
			return rng[V, VR]{r}, r == zeroR, err
		},
	}
}

// All lists the 20 ecosystems, sorted by name.
var All = func() []Eco {
	l := []Eco{
		wrap(&alpine.Ecosystem{}), wrap(&alpm.Ecosystem{}), wrap(&apache.Ecosystem{}), wrap(&cargo.Ecosystem{}),
		wrap(&composer.Ecosystem{}), wrap(&conan.Ecosystem{}), wrap(&cran.Ecosystem{}), wrap(&debian.Ecosystem{}),
		wrap(&gem.Ecosystem{}), wrap(&gentoo.Ecosystem{}), wrap(&github.Ecosystem{}), wrap(&golang.Ecosystem{}),
		wrap(&hex.Ecosystem{}), wrap(&mattermost.Ecosystem{}), wrap(&maven.Ecosystem{}), wrap(&npm.Ecosystem{}),
		wrap(&nuget.Ecosystem{}), wrap(&pypi.Ecosystem{}), wrap(&rpm.Ecosystem{}), wrap(&semver.Ecosystem{}),
	}
	sort.Slice(l, func(i, j int) bool { return l[i].Name < l[j].Name })
	return l
}()

// Names is the list of the 20 expected ecosystem names (independent of what
// Name() returns, so that a renamed ecosystem is noticed).
var Names = []string{"alpine", "alpm", "apache", "cargo", "composer", "conan", "cran", "debian", "gem", "gentoo",
	"github", "golang", "hex", "mattermost", "maven", "npm", "nuget", "pypi", "rpm", "semver"}

// ByName returns the ecosystem with that name; panics if absent.
func ByName(n string) Eco {
	for _, e := range All {
		if e.Name == n {
			return e
		}
	}
	panic("unknown ecosystem " + n)
}

// Schemes maps the 11 VERS scheme names to ecosystem names.
var Schemes = map[string]string{"alpine": "alpine", "cargo": "cargo", "deb": "debian", "gem": "gem", "generic": "semver",
	"golang": "golang", "maven": "maven", "npm": "npm", "nuget": "nuget", "pypi": "pypi", "rpm": "rpm"}

// SchemeNames is Schemes' key set, sorted.
var SchemeNames = []string{"alpine", "cargo", "deb", "gem", "generic", "golang", "maven", "npm", "nuget", "pypi", "rpm"}
