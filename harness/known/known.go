// Package known reads /verif/KNOWN_FINDINGS.txt and implements the class
// predicates named there. A case that falls into an ACTIVE class (one listed
// in the file as "known:") is excluded from the search by construction and
// counted; everything else that fails is a violation. The file is never
// written at run time. "fixed:" lines are informational and suppress nothing.
package known

import (
	"bufio"
	"encoding/base64"
	"encoding/json"
	"fmt"
	"os"
	"strings"
	"unicode/utf8"
)

// Case is one concrete, replayable instance of a property check.
type Case struct {
	Property string   `json:"property"`
	Check    string   `json:"check"`
	Eco      string   `json:"eco"`
	Inputs   []string `json:"inputs"`
	Want     string   `json:"want,omitempty"`
	Got      string   `json:"got,omitempty"`
	Detail   string   `json:"detail,omitempty"`
}

type caseJSON struct {
	Property  string   `json:"property"`
	Check     string   `json:"check"`
	Eco       string   `json:"eco"`
	Inputs    []string `json:"inputs"`
	InputsB64 []string `json:"inputs_b64,omitempty"`
	Want      string   `json:"want,omitempty"`
	Got       string   `json:"got,omitempty"`
	Detail    string   `json:"detail,omitempty"`
}

// MarshalJSON keeps inputs that are not valid UTF-8 intact by adding a base64
// copy of all inputs (JSON strings cannot carry arbitrary bytes).
func (c Case) MarshalJSON() ([]byte, error) {
	j := caseJSON{Property: c.Property, Check: c.Check, Eco: c.Eco, Inputs: c.Inputs, Want: c.Want, Got: c.Got, Detail: c.Detail}
	raw := false
	for _, in := range c.Inputs {
		if !utf8.ValidString(in) {
			raw = true
		}
	}
	if raw {
		for _, in := range c.Inputs {
			j.InputsB64 = append(j.InputsB64, base64.StdEncoding.EncodeToString([]byte(in)))
		}
	}
	return json.Marshal(j)
}

// UnmarshalJSON prefers the base64 copy of the inputs when present.
func (c *Case) UnmarshalJSON(b []byte) error {
	var j caseJSON
	if err := json.Unmarshal(b, &j); err != nil {
		return err
	}
	*c = Case{Property: j.Property, Check: j.Check, Eco: j.Eco, Inputs: j.Inputs, Want: j.Want, Got: j.Got, Detail: j.Detail}
	if len(j.InputsB64) > 0 {
		c.Inputs = nil
		for _, e := range j.InputsB64 {
			d, err := base64.StdEncoding.DecodeString(e)
			if err != nil {
				return err
			}
			c.Inputs = append(c.Inputs, string(d))
		}
	}
	return nil
}

// Key returns the strings identifying the case.
func (c Case) Key() []string {
	return append([]string{c.Property, c.Check, c.Eco}, c.Inputs...)
}

func (c Case) String() string {
	b, _ := json.Marshal(c)
	return string(b)
}

// Finding is one "known:" line.
type Finding struct {
	Property string
	ID       string
	Class    string
	Witness  Case
	Text     string
}

// Findings are the active known findings.
var Findings []Finding

var active = map[string]bool{}

// Load parses the findings file (missing file = no findings).
func Load(path string) error {
	Findings = nil
	active = map[string]bool{}
	f, err := os.Open(path)
	if err != nil {
		if os.IsNotExist(err) {
			return nil
		}
		return err
	}
	defer f.Close()
	sc := bufio.NewScanner(f)
	sc.Buffer(make([]byte, 1<<20), 1<<20)
	ln := 0
	for sc.Scan() {
		ln++
		line := strings.TrimSpace(sc.Text())
		if line == "" || strings.HasPrefix(line, "#") || strings.HasPrefix(line, "fixed:") {
			continue
		}
		if !strings.HasPrefix(line, "known:") {
			return fmt.Errorf("%s:%d: unrecognised line", path, ln)
		}
		rest := strings.TrimSpace(strings.TrimPrefix(line, "known:"))
		var fd Finding
		for {
			rest = strings.TrimSpace(rest)
			switch {
			case strings.HasPrefix(rest, "property="):
				fd.Property, rest = cut(rest[len("property="):])
				continue
			case strings.HasPrefix(rest, "id="):
				fd.ID, rest = cut(rest[len("id="):])
				continue
			case strings.HasPrefix(rest, "class="):
				fd.Class, rest = cut(rest[len("class="):])
				continue
			case strings.HasPrefix(rest, "witness="):
				dec := json.NewDecoder(strings.NewReader(rest[len("witness="):]))
				if err := dec.Decode(&fd.Witness); err != nil {
					return fmt.Errorf("%s:%d: witness: %v", path, ln, err)
				}
				rest = rest[len("witness=")+int(dec.InputOffset()):]
				continue
			}
			break
		}
		fd.Text = strings.TrimSpace(rest)
		if fd.Property == "" || fd.Class == "" || fd.ID == "" {
			return fmt.Errorf("%s:%d: property=, id= and class= are required", path, ln)
		}
		if _, ok := classes[fd.Class]; !ok {
			return fmt.Errorf("%s:%d: unknown class %q", path, ln, fd.Class)
		}
		if fd.Witness.Property == "" {
			fd.Witness.Property = fd.Property
		}
		Findings = append(Findings, fd)
		active[fd.Property+"/"+fd.Class] = true
	}
	return sc.Err()
}

func cut(s string) (string, string) {
	if i := strings.IndexAny(s, " \t"); i >= 0 {
		return s[:i], s[i:]
	}
	return s, ""
}

// Active reports whether class is listed for the property.
func Active(property, class string) bool { return active[property+"/"+class] }

// Match returns the first active class of the case's property whose predicate
// holds for the case, or "".
func Match(c Case) string {
	for _, name := range classOrder {
		if active[c.Property+"/"+name] && classes[name](c) {
			return name
		}
	}
	return ""
}

// classes maps a class name to its predicate. Predicates are syntactic: they
// look at the inputs only, never at what the implementation answers.
var classes = map[string]func(Case) bool{}
var classOrder []string

func register(name string, p func(Case) bool) {
	classes[name] = p
	classOrder = append(classOrder, name)
}

// PoolMatcher returns a function that reports the active known-finding class
// (or "") for the triple (pool[i], pool[j], pool[k]) of the given property
// and ecosystem. It is equivalent to calling Match on each triple but lets a
// class precompute per-pool data.
func PoolMatcher(property, eco string, pool []string) func(i, j, k int) string {
	type fm struct {
		name string
		f    func(i, j, k int) bool
	}
	var fast []fm
	var slow []string
	for _, name := range classOrder {
		if !active[property+"/"+name] {
			continue
		}
		if mk, ok := poolFast[name]; ok {
			if f := mk(eco, pool); f != nil {
				fast = append(fast, fm{name, f})
			}
			continue
		}
		slow = append(slow, name)
	}
	if len(fast) == 0 && len(slow) == 0 {
		return func(i, j, k int) string { return "" }
	}
	return func(i, j, k int) string {
		for _, x := range fast {
			if x.f(i, j, k) {
				return x.name
			}
		}
		if len(slow) > 0 {
			c := Case{Property: property, Check: "laws", Eco: eco, Inputs: []string{pool[i], pool[j], pool[k]}}
			for _, name := range slow {
				if classes[name](c) {
					return name
				}
			}
		}
		return ""
	}
}

// poolFast: per-class constructors of precomputed triple predicates; a
// constructor returns nil when the class cannot apply to the ecosystem.
var poolFast = map[string]func(eco string, pool []string) func(i, j, k int) bool{}

// CycleInSet reports the active class (of property C01) that matches some
// triple drawn from vs, or "". Properties that rely on a consistent order over
// a set of versions (VERS intervals, sorting) use it to stay out of the
// regions where the order itself is a recorded finding.
func CycleInSet(ecoName string, vs []string) string {
	any := false
	for _, name := range classOrder {
		if active["C01/"+name] {
			any = true
		}
	}
	if !any {
		return ""
	}
	f := PoolMatcher("C01", ecoName, vs)
	for i := 0; i < len(vs); i++ {
		for j := i + 1; j < len(vs); j++ {
			for k := j + 1; k < len(vs); k++ {
				if cls := f(i, j, k); cls != "" {
					return cls
				}
			}
		}
	}
	return ""
}
