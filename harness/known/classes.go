package known

import (
	"encoding/json"
	"regexp"
	"strconv"
	"strings"

	"verifharness/model"
)

// lawsFail reports whether cmp violates the preorder laws on some ordering of
// the three elements.
func lawsFail(cmp func(i, j int) int) bool {
	for i := 0; i < 3; i++ {
		if cmp(i, i) != 0 {
			return true
		}
		for j := 0; j < 3; j++ {
			if cmp(i, j) != -cmp(j, i) {
				return true
			}
			for k := 0; k < 3; k++ {
				ab, bc, ac := cmp(i, j), cmp(j, k), cmp(i, k)
				if ab <= 0 && bc <= 0 && (ac > 0 || ((ab < 0 || bc < 0) && ac == 0)) {
					return true
				}
			}
		}
	}
	return false
}

// stripZeros removes surrounding whitespace (which go-univers ignores) and the
// leading zeros of every digit run. ComparableVersion gives a run of 19 or
// more zeros a different item type than "0" (BigIntegerItem(0) > IntItem(0)),
// a quirk go-univers does not copy; the reference is therefore also consulted
// on the zero-stripped spelling, where that quirk cannot mask a cycle.
func stripZeros(s string) string {
	s = strings.TrimSpace(s)
	var sb strings.Builder
	for i := 0; i < len(s); {
		if s[i] < '0' || s[i] > '9' {
			sb.WriteByte(s[i])
			i++
			continue
		}
		j := i
		for j < len(s) && s[j] >= '0' && s[j] <= '9' {
			j++
		}
		run := strings.TrimLeft(s[i:j], "0")
		if run == "" {
			run = "0"
		}
		sb.WriteString(run)
		i = j
	}
	return sb.String()
}

func trimmed(f func(a, b string) int) func(a, b string) int {
	return func(a, b string) int { return f(strings.TrimSpace(a), strings.TrimSpace(b)) }
}

func zeroStripped(f func(a, b string) int) func(a, b string) int {
	return func(a, b string) int { return f(stripZeros(a), stripZeros(b)) }
}

var mavenRefs = []func(a, b string) int{trimmed(model.MavenCompare), trimmed(model.MavenCompareAliasAlways), zeroStripped(model.MavenCompare), zeroStripped(model.MavenCompareAliasAlways)}

// fastCycle builds the per-pool version of a reference-cycle class: the
// reference comparison matrices are computed once per pool.
func fastCycle(ecoName string, cmps ...func(a, b string) int) func(eco string, pool []string) func(i, j, k int) bool {
	return func(eco string, pool []string) func(i, j, k int) bool {
		if eco != ecoName {
			return nil
		}
		n := len(pool)
		ms := make([][][]int, len(cmps))
		for c, cmp := range cmps {
			ms[c] = make([][]int, n)
			for i := range pool {
				ms[c][i] = make([]int, n)
				for j := range pool {
					ms[c][i][j] = cmp(pool[i], pool[j])
				}
			}
		}
		return func(i, j, k int) bool {
			t := [3]int{i, j, k}
			for _, m := range ms {
				if lawsFail(func(x, y int) int { return m[t[x]][t[y]] }) {
					return true
				}
			}
			return false
		}
	}
}

func init() {
	// maven: ComparableVersion itself (which C12 requires go-univers to follow)
	// is not transitive, e.g. 1.0.alpha.1 < 1 < 1.sp.1 < 1.0.alpha.1 (checked
	// with the Maven 3.8.7 jar). Predicate: the reference model of
	// ComparableVersion breaks the preorder laws on this very triple. It looks
	// at the inputs through the reference only, never at go-univers' answer.
	register("maven.reference_cycle", func(c Case) bool {
		if c.Eco != "maven" {
			return false
		}
		vs := c.Inputs
		if c.Property != "C01" && len(c.Inputs) > 0 {
			// first input is a Maven range: its bounds take part in the order too
			vs = append(mavenBounds(c.Inputs[0]), c.Inputs[1:]...)
		}
		for i := 0; i < len(vs); i++ {
			for j := i + 1; j < len(vs); j++ {
				for k := j + 1; k < len(vs); k++ {
					t := [3]string{vs[i], vs[j], vs[k]}
					for _, ref := range mavenRefs {
						if lawsFail(func(x, y int) int { return ref(t[x], t[y]) }) {
							return true
						}
					}
				}
			}
		}
		return false
	})
	poolFast["maven.reference_cycle"] = fastCycle("maven", mavenRefs...)
	poolFast["alpm.reference_cycle"] = fastCycle("alpm", trimmed(model.AlpmCompare))

	// alpm: pacman's vercmp (which go-univers follows) is itself cyclic on
	// degenerate inputs with trailing or repeated separators, e.g.
	// 0. < 0.0 < 0..a < 0. : the separator-length rule and the "a remaining
	// alpha segment loses against nothing" rule do not compose. Predicate: the
	// vercmp reference model breaks the preorder laws on a triple of the case.
	register("alpm.reference_cycle", func(c Case) bool {
		if c.Eco != "alpm" {
			return false
		}
		vs := c.Inputs
		if c.Property != "C01" && len(c.Inputs) > 0 {
			vs = append(comparatorBounds(c.Inputs[0]), c.Inputs[1:]...)
		}
		for i := 0; i < len(vs); i++ {
			for j := i + 1; j < len(vs); j++ {
				for k := j + 1; k < len(vs); k++ {
					t := [3]string{vs[i], vs[j], vs[k]}
					if lawsFail(func(x, y int) int { return model.AlpmCompare(strings.TrimSpace(t[x]), strings.TrimSpace(t[y])) }) {
						return true
					}
				}
			}
		}
		return false
	})

	// composer: a caret range on a stable base treats pre-releases of the base
	// version itself through a literal special case (^1.0.0 contains exactly
	// the text "1.0b1"), pinned by composer/range_test.go "beta without hyphen
	// in caret" together with "prerelease in caret". Predicate: the range has
	// a caret term and one of the versions is a pre-release spelling with the
	// same major.minor.patch as that term.
	register("composer.caret_base_prerelease", func(c Case) bool {
		if c.Eco != "composer" || len(c.Inputs) < 2 {
			return false
		}
		for _, term := range strings.FieldsFunc(c.Inputs[0], func(r rune) bool { return r == ' ' || r == ',' || r == '|' }) {
			if !strings.HasPrefix(term, "^") {
				continue
			}
			base, _ := numericHead(strings.TrimPrefix(term[1:], "v"))
			for _, v := range c.Inputs[1:] {
				head, rest := numericHead(strings.TrimPrefix(strings.TrimSpace(v), "v"))
				if head == base && composerPreRest.MatchString(rest) {
					return true
				}
			}
		}
		return false
	})

	// hex: '~> X.Y' with Y > 0 is evaluated as < X.(Y+1).0 instead of the
	// documented < (X+1).0.0. Pinned by hex/range_test.go ("Elixir
	// compatibility - out of range": ~> 1.14 must reject 1.15.7).
	// Predicate (C05 case = [kind, probe, args]): pessimistic operator on a
	// two-component base whose minor is not zero, and a probe in the disputed
	// band X.(Y+1).0 <= probe < (X+1).0.0.
	register("hex.pessimistic_two_part_nonzero_minor", func(c Case) bool {
		if c.Eco != "hex" || len(c.Inputs) < 3 || c.Inputs[0] != "pess" {
			return false
		}
		var args []string
		if json.Unmarshal([]byte(c.Inputs[2]), &args) != nil || len(args) != 3 {
			return false
		}
		if strings.TrimLeft(args[1], "0") == "" {
			return false
		}
		// only the disputed band: X.(Y+1).0 (its pre-releases included) up to (X+1).0.0 exclusive; elsewhere
		// go-univers and the documentation agree and the construct stays checked
		x, err1 := strconv.Atoi(args[0])
		y, err2 := strconv.Atoi(args[1])
		head, _ := numericHead(strings.TrimPrefix(strings.TrimSpace(c.Inputs[1]), "v"))
		hp := strings.Split(head, ".")
		if err1 != nil || err2 != nil || len(hp) != 3 {
			return true
		}
		maj, e1 := strconv.Atoi(hp[0])
		mnr, e2 := strconv.Atoi(hp[1])
		if e1 != nil || e2 != nil {
			return true
		}
		return maj == x && mnr >= y+1
	})

	// gem: '~>' on a pre-release base keeps all numeric segments of the base
	// (~> 1.0.0.rc1 is < 1.0.1) where Gem::Requirement bumps (< 1.1). Pinned by
	// gem/range_test.go "pessimistic prerelease patch bump". Predicate: the
	// pessimistic construct has a pre-release argument and the probe lies in
	// the disputed band, from the next "patch" of the base's numeric segments
	// (its pre-releases included) up to the documented upper bound (exclusive),
	// judged by the Gem::Version reference model. Below and above that band go-univers and
	// RubyGems agree and the construct stays checked.
	register("gem.pessimistic_prerelease_base", func(c Case) bool {
		if c.Eco != "gem" || len(c.Inputs) < 3 || c.Inputs[0] != "pess" {
			return false
		}
		var args []string
		if json.Unmarshal([]byte(c.Inputs[2]), &args) != nil || len(args) < 2 || args[len(args)-1] == "" {
			return false
		}
		parts := args[:len(args)-1]
		for _, p := range parts {
			if p == "" || strings.Trim(p, "0123456789") != "" {
				return true // not the numeric shape the band is defined for: whole construct
			}
		}
		if len(parts) < 2 {
			return false // one numeric segment: nothing is dropped, no dispute
		}
		bump := func(xs []string) string {
			ys := append([]string{}, xs...)
			n, _ := strconv.Atoi(ys[len(ys)-1])
			ys[len(ys)-1] = strconv.Itoa(n + 1)
			return strings.Join(ys, ".")
		}
		lo, hi := bump(parts), bump(parts[:len(parts)-1])
		probe := strings.TrimSpace(c.Inputs[1])
		if !model.GemValid(probe) {
			return true
		}
		// the band starts with the pre-releases of lo: the probe's numeric prefix is compared with lo
		var prefix []string
		for _, seg := range strings.Split(strings.ReplaceAll(probe, "-", ".pre."), ".") {
			if seg == "" || strings.Trim(seg, "0123456789") != "" {
				break
			}
			prefix = append(prefix, seg)
		}
		if len(prefix) == 0 {
			return true
		}
		c1, ok1 := model.GemCompare(strings.Join(prefix, "."), lo)
		c2, ok2 := model.GemCompare(probe, hi)
		if !ok1 || !ok2 {
			return true // the two readings of Gem::Version disagree on this probe: not decidable, stays excluded
		}
		return c1 >= 0 && c2 < 0
	})

	// pypi: the local version label is ignored by Compare. Pinned by
	// pkg/spec/vers/pypi_test.go "different local also excluded per PEP 440"
	// (vers:pypi/!=1.0.0+local1 must exclude 1.0.0+local2).
	// Syntactic predicate: one of the two versions carries a local label.
	register("pypi.local_label", func(c Case) bool {
		if c.Eco != "pypi" || len(c.Inputs) < 2 {
			return false
		}
		return strings.Contains(c.Inputs[0], "+") || strings.Contains(c.Inputs[1], "+")
	})

	// rpm: go-univers orders an alphabetic segment above a numeric one where
	// rpmvercmp says the numeric segment is newer. Pinned by
	// rpm/version_test.go "release numeric vs alpha" (1.2.3-1 < 1.2.3-a).
	// Syntactic predicate: the rpmvercmp walk over the pair is decided by a
	// numeric segment meeting an alphabetic one.
	register("rpm.segment_type", func(c Case) bool {
		if c.Eco != "rpm" || len(c.Inputs) < 2 {
			return false
		}
		_, why := model.RpmCompareWhy(c.Inputs[0], c.Inputs[1])
		return why == "type"
	})
}

// mavenBounds extracts the bound versions from a Maven range text
// ("[a,b)", "(,b]", "[a]", "a").
func mavenBounds(r string) []string {
	r = strings.TrimSpace(r)
	r = strings.TrimLeft(r, "[(")
	r = strings.TrimRight(r, "])")
	var out []string
	for _, p := range strings.Split(r, ",") {
		if p = strings.TrimSpace(p); p != "" {
			out = append(out, p)
		}
	}
	return out
}

// comparatorBounds extracts the bound versions of a space/comma separated
// comparator range (operators stripped, the keyword "and" dropped).
func comparatorBounds(r string) []string {
	var out []string
	for _, p := range strings.FieldsFunc(r, func(c rune) bool { return c == ' ' || c == ',' || c == '|' || c == '\t' }) {
		p = strings.TrimLeft(p, "<>=!~^")
		if p != "" && strings.ToLower(p) != "and" {
			out = append(out, p)
		}
	}
	return out
}

var composerPreRest = regexp.MustCompile(`^-?(alpha|beta|RC|rc|a|b|dev)([.0-9+]|$)`)

// numericHead returns the leading dotted number of s normalised to three
// components without leading zeros ("1.0" -> "1.0.0") and the rest of s.
func numericHead(s string) (string, string) {
	i := 0
	for i < len(s) && (s[i] == '.' || (s[i] >= '0' && s[i] <= '9')) {
		i++
	}
	head, rest := strings.TrimRight(s[:i], "."), s[i:]
	if len(head) < i {
		rest = s[len(head):]
	}
	parts := strings.Split(head, ".")
	for len(parts) < 3 {
		parts = append(parts, "0")
	}
	for k, p := range parts {
		p = strings.TrimLeft(p, "0")
		if p == "" {
			p = "0"
		}
		parts[k] = p
	}
	return strings.Join(parts[:3], "."), rest
}
