package known

import (
	"verifharness/model"
)

func init() {
	// rpm: go-univers orders an alphabetic segment above a numeric one where
	// rpmvercmp says the numeric segment is newer. Pinned by
	// rpm/version_test.go "release numeric vs alpha" (1.2.3-1 < 1.2.3-a).
	// Syntactic predicate: the rpmvercmp walk over the pair is decided by a
	// numeric segment meeting an alphabetic one.
	register("rpm.segment_type", func(c Case) bool {
		if c.Eco != "rpm" || len(c.Inputs) < 2 {
			return false
		}
		_, why := model.RpmCompareWhy(c.Inputs[0], c.Inputs[1])
		return why == "type"
	})
}
