package known

import (
	"strings"

	"verifharness/model"
)

func init() {
	// pypi: the local version label is ignored by Compare. Pinned by
	// pkg/spec/vers/pypi_test.go "different local also excluded per PEP 440"
	// (vers:pypi/!=1.0.0+local1 must exclude 1.0.0+local2).
	// Syntactic predicate: one of the two versions carries a local label.
	register("pypi.local_label", func(c Case) bool {
		if c.Eco != "pypi" || len(c.Inputs) < 2 {
			return false
		}
		return strings.Contains(c.Inputs[0], "+") || strings.Contains(c.Inputs[1], "+")
	})

	// rpm: go-univers orders an alphabetic segment above a numeric one where
	// rpmvercmp says the numeric segment is newer. Pinned by
	// rpm/version_test.go "release numeric vs alpha" (1.2.3-1 < 1.2.3-a).
	// Syntactic predicate: the rpmvercmp walk over the pair is decided by a
	// numeric segment meeting an alphabetic one.
	register("rpm.segment_type", func(c Case) bool {
		if c.Eco != "rpm" || len(c.Inputs) < 2 {
			return false
		}
		_, why := model.RpmCompareWhy(c.Inputs[0], c.Inputs[1])
		return why == "type"
	})
}
