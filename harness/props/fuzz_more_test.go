package props

import (
	"encoding/json"
	"strings"
	"testing"

	"verifharness/eco"
	"verifharness/known"
)

// Native coverage-guided fuzz targets for C01 and C18 (thorough tier). They
// reach accepted strings outside my grammars (every parser is tried on the
// raw fuzz input); the oracle is the same replay function as in the rapid
// search, and known-finding classes are excluded the same way.

func FuzzC01Triple(f *testing.F) {
	f.Add("1.0", "1.0.0", "1.1")
	f.Add("1.0a", "1.0+", "1.0~rc1")
	f.Add("1.0-rc1", "1.0.rc1", "1.0-1")
	f.Add("v1.2.3-alpha.1", "1.2.3-alpha.beta", "1.2.3")
	f.Add("1:1.0-1", "1.0-1", "0:1.0-2")
	f.Add("1.0_alpha1-r1", "1.0_p1", "1.0bc")
	f.Add("1.0.dev1", "1.0a1", "1.0.post1")
	f.Add("00000000000000000000001", "99999999999999999999", "2")
	f.Add("1.0^git1", "1.0.1", "1.0~~")
	for i := 0; i+2 < len(harvested); i += 7 {
		f.Add(harvested[i], harvested[i+1], harvested[i+2])
	}
	f.Fuzz(func(t *testing.T, a, b, c string) {
		if len(a)+len(b)+len(c) > 300 {
			return
		}
		for _, e := range eco.All {
			va, e1 := e.NewVersion(a)
			vb, e2 := e.NewVersion(b)
			vc, e3 := e.NewVersion(c)
			if e1 != nil || e2 != nil || e3 != nil {
				continue
			}
			if c01Excluded(e.Name, strings.TrimSpace(a), strings.TrimSpace(b), strings.TrimSpace(c)) {
				continue
			}
			kc := known.Case{Property: "C01", Check: "laws", Eco: e.Name, Inputs: []string{a, b, c}}
			if known.Match(kc) != "" {
				continue
			}
			vs := [3]eco.Ver{va, vb, vc}
			if bad, detail := lawsOnTriple(func(i, j int) int { return vs[i].Compare(vs[j]) }); bad {
				kc.Detail = detail
				b, _ := json.Marshal(kc)
				t.Fatalf("C01-FUZZ eco=%s check=laws %s\nFUZZCASE %s", e.Name, detail, b)
			}
		}
	})
}

func FuzzC18Version(f *testing.F) {
	f.Add("1.0.0", "1.0.1", uint8(1), uint8(2))
	f.Add("1.0bc", "1.0", uint8(3), uint8(0))
	f.Add("2024.01.15", "1.0.0", uint8(2), uint8(2))
	f.Add("dev-main", "1.0", uint8(0), uint8(5))
	for i := 0; i+1 < len(harvested); i += 9 {
		f.Add(harvested[i], harvested[i+1], uint8(i), uint8(i/3))
	}
	f.Fuzz(func(t *testing.T, s, partner string, lp, rp uint8) {
		if len(s)+len(partner) > 200 {
			return
		}
		l, r := padPool[int(lp)%len(padPool)], padPool[int(rp)%len(padPool)]
		for _, e := range eco.All {
			if _, err := e.NewVersion(s); err != nil {
				continue
			}
			fuzzEval(t, known.Case{Property: "C18", Check: "version", Eco: e.Name, Inputs: []string{s, l, r, partner}})
		}
	})
}
