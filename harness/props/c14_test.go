package props

import (
	"bufio"
	"fmt"
	"os"
	"strings"
	"testing"

	"pgregory.net/rapid"

	"verifharness/eco"
	"verifharness/gen"
	"verifharness/known"
	"verifharness/model"
)

// C14 — Alpine versions order as apk-tools does (well-formed grammar).  check "order": inputs [a, b]

func init() {
	registerCheck("C14", "order", func(c known.Case) (bool, string) {
		e := eco.ByName("alpine")
		a, b := c.Inputs[0], c.Inputs[1]
		want, claimed := model.ApkCompare(a, b)
		if !claimed {
			return false, "out of domain"
		}
		va, err1 := e.NewVersion(a)
		vb, err2 := e.NewVersion(b)
		if err1 != nil || err2 != nil {
			return true, fmt.Sprintf("a well-formed Alpine version was rejected: %v %v", err1, err2)
		}
		if got := va.Compare(vb); sign(got) != want {
			return true, fmt.Sprintf("Compare(%q,%q)=%d, apk order gives %d", a, b, got, want)
		}
		if got := vb.Compare(va); sign(got) != -want {
			return true, fmt.Sprintf("Compare(%q,%q)=%d, apk order gives %d", b, a, got, -want)
		}
		return false, ""
	})
}

var apkSufNames = []string{"alpha", "beta", "pre", "rc", "cvs", "svn", "git", "hg", "p"}

// apkCounter draws a suffix number or revision: mostly small, sometimes written with leading zeros (apk reads them as
// decimal numbers), sometimes a date/timestamp or a value around 2^32, 2^48, 2^53 and the largest 18-digit number.
func apkCounter(rt *rapid.T, l string) string {
	switch k := rapid.IntRange(0, 9).Draw(rt, l+"ck"); {
	case k < 7:
		return gen.SmallNum(rt, l)
	case k == 7:
		return gen.Pick(rt, l, "00", "01", "07", "08", "09", "010", "011", "0100", "007", "0010")
	default:
		return gen.Pick(rt, l, "20200101", "20240229", "20240229123456", "20240229123457", "4294967295", "4294967296", "4294967297", "281474976710655", "281474976710656", "281474976710657",
			"1125899906842624", "9007199254740992", "9007199254740993", "300000000000000", "999999999999999999", "999999999999999998")
	}
}

func apkVersion(rt *rapid.T, l string, ncomp int) string {
	var sb strings.Builder
	parts := make([]string, ncomp)
	for i := range parts {
		parts[i] = gen.Num(rt, fmt.Sprintf("%sn%d", l, i), gen.NumOpts{})
	}
	sb.WriteString(strings.Join(parts, "."))
	if gen.Chance(rt, l+"L", 1, 3) {
		sb.WriteString(gen.Pick(rt, l+"l", "a", "b", "c", "z"))
	}
	ns := rapid.IntRange(0, 3).Draw(rt, l+"S")
	for i := 0; i < ns; i++ {
		sb.WriteString("_" + gen.Pick(rt, fmt.Sprintf("%ss%d", l, i), apkSufNames...))
		if gen.Chance(rt, fmt.Sprintf("%sh%d", l, i), 2, 3) {
			sb.WriteString(apkCounter(rt, fmt.Sprintf("%sv%d", l, i)))
		}
	}
	if gen.Chance(rt, l+"R", 1, 3) {
		sb.WriteString("-r" + apkCounter(rt, l+"r"))
	}
	return sb.String()
}

// apkNeighbor edits a within the claimed domain: one number changed, the
// letter changed, a suffix added / removed / renamed / renumbered, the revision changed.
func apkNeighbor(rt *rapid.T, a string) string {
	head, rev := a, ""
	if k := strings.Index(a, "-r"); k >= 0 {
		head, rev = a[:k], a[k:]
	}
	parts := strings.Split(head, "_")
	core, sufs := parts[0], parts[1:]
	letter := ""
	if n := len(core); n > 0 && core[n-1] >= 'a' && core[n-1] <= 'z' {
		core, letter = core[:n-1], core[n-1:]
	}
	nums := strings.Split(core, ".")
	switch rapid.IntRange(0, 7).Draw(rt, "ak") {
	case 0:
		i := rapid.IntRange(0, len(nums)-1).Draw(rt, "ni")
		nums[i] = gen.Num(rt, "nv", gen.NumOpts{})
	case 1:
		letter = gen.Pick(rt, "lt", "", "a", "b", "z")
	case 2:
		if len(sufs) < 3 {
			sufs = append(sufs, gen.Pick(rt, "sa", apkSufNames...)+gen.Pick(rt, "sn", "", "1", "2"))
		}
	case 3:
		if len(sufs) > 0 {
			sufs = sufs[:len(sufs)-1]
		}
	case 4:
		if len(sufs) > 0 {
			i := rapid.IntRange(0, len(sufs)-1).Draw(rt, "si")
			sufs[i] = gen.Pick(rt, "sr", apkSufNames...) + strings.TrimLeft(sufs[i], "abcdefghijklmnopqrstuvwxyz")
		}
	case 5:
		if len(sufs) > 0 {
			i := rapid.IntRange(0, len(sufs)-1).Draw(rt, "si")
			if gen.Chance(rt, "snbig", 1, 3) {
				sufs[i] = strings.TrimRight(sufs[i], "0123456789") + apkCounter(rt, "snc")
			} else {
				sufs[i] = strings.TrimRight(sufs[i], "0123456789") + gen.Pick(rt, "sn", "", "0", "1", "2", "10")
			}
		}
	case 6:
		rev = gen.Pick(rt, "rv", "", "-r1", "-r2", "-r10", "-r010", "-r09", "-r4294967296")
	default:
		if len(sufs) > 1 {
			sufs[0], sufs[1] = sufs[1], sufs[0]
		}
	}
	out := strings.Join(nums, ".") + letter
	for _, s := range sufs {
		out += "_" + s
	}
	return out + rev
}

func TestC14(t *testing.T) {
	r := newRunner(t, "C14")
	e := eco.ByName("alpine")
	// the rows of the repository's own apk sample file that fall in the domain validate the model
	if f, err := os.Open(repoRoot() + "/pkg/ecosystem/alpine/testdata/compare.txt"); err == nil {
		sc := bufio.NewScanner(f)
		n, bad := 0, 0
		for sc.Scan() {
			ln := sc.Text()
			if k := strings.Index(ln, "#"); k >= 0 {
				ln = ln[:k]
			}
			p := strings.Fields(ln)
			if len(p) != 3 {
				continue
			}
			want, okw := map[string]int{"<": -1, "=": 0, ">": 1}[p[1]]
			got, claimed := model.ApkCompare(p[0], p[2])
			if !okw || !claimed {
				continue
			}
			n++
			if got != want {
				bad++
				fmt.Fprintf(os.Stderr, "ORACLE-DISAGREEMENT: apk model %s %s %s model=%d\n", p[0], p[1], p[2], got)
			}
		}
		f.Close()
		r.ev.Count("oracle_crosscheck_pairs", int64(n))
		r.ev.Count("oracle_disagreement", int64(bad))
		r.ev.Note("oracle_crosscheck", "reference model replayed against the in-domain rows of alpine/testdata/compare.txt (apk-tools' own sample)")
	}
	rapid.Check(t, func(rt *rapid.T) {
		nc := rapid.IntRange(1, 5).Draw(rt, "nc")
		a := apkVersion(rt, "a", nc)
		var b string
		switch rapid.IntRange(0, 3).Draw(rt, "bk") {
		case 0:
			b = gen.Neighbor(rt, e, a, "b")
		case 1, 2:
			b = apkNeighbor(rt, a)
		default:
			b = apkVersion(rt, "b", nc)
		}
		if gen.Chance(rt, "swap", 1, 2) {
			a, b = b, a
		}
		if _, claimed := model.ApkCompare(a, b); !claimed {
			r.ev.Count("out_of_domain", 1)
			return
		}
		kc := known.Case{Check: "order", Eco: "alpine", Inputs: []string{a, b}}
		if r.check(rt, kc) && a != b {
			na := strings.IndexAny(a, "abcdefghijklmnopqrstuvwxyz_-")
			nb := strings.IndexAny(b, "abcdefghijklmnopqrstuvwxyz_-")
			ha, hb := a, b
			if na >= 0 {
				ha = a[:na]
			}
			if nb >= 0 {
				hb = b[:nb]
			}
			if ha == hb {
				cls := "alpine/same-numbers"
				if strings.Count(a, "_") != strings.Count(b, "_") {
					cls = "alpine/same-numbers-different-suffix-count"
				}
				r.ev.NonTrivial(cls, func() any { return kc.Inputs }, a, b)
			}
		}
	})
}
