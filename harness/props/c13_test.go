package props

import (
	"fmt"
	"strings"
	"testing"

	"pgregory.net/rapid"

	"verifharness/eco"
	"verifharness/gen"
	"verifharness/known"
	"verifharness/model"
)

// C13 — RubyGems versions order as Gem::Version does.  check "order": inputs [a, b]

// c13InDomain: matches RubyGems' own pattern, letters in a single case.
func c13InDomain(s string) bool {
	if !model.GemValid(s) {
		return false
	}
	return s == strings.ToLower(s)
}

func init() {
	registerCheck("C13", "order", func(c known.Case) (bool, string) {
		e := eco.ByName("gem")
		a, b := c.Inputs[0], c.Inputs[1]
		if !c13InDomain(a) || !c13InDomain(b) {
			return false, "out of domain"
		}
		want, agreed := model.GemCompare(a, b)
		if !agreed {
			return false, "the two readings of trailing-zero handling differ: unclaimed"
		}
		va, err1 := e.NewVersion(a)
		vb, err2 := e.NewVersion(b)
		if err1 != nil || err2 != nil {
			return false, "rejected by the gem parser (the property quantifies over accepted strings)"
		}
		if got := va.Compare(vb); sign(got) != want {
			return true, fmt.Sprintf("Compare(%q,%q)=%d, Gem::Version#<=> gives %d", a, b, got, want)
		}
		if got := vb.Compare(va); sign(got) != -want {
			return true, fmt.Sprintf("Compare(%q,%q)=%d, Gem::Version#<=> gives %d", b, a, got, -want)
		}
		return false, ""
	})
}

var gemC13Words = []string{"a", "b", "rc", "pre", "alpha", "beta", "dev", "x", "z", "p"}

func gemC13Version(rt *rapid.T, l string) string {
	var sb strings.Builder
	sb.WriteString(gen.Dotted(rt, l+"n", 1, 4, gen.NumOpts{LeadingZeros: true, Big: true}))
	n := rapid.IntRange(0, 3).Draw(rt, l+"G")
	hy := false
	for i := 0; i < n; i++ {
		il := fmt.Sprintf("%sg%d", l, i)
		w := gen.Pick(rt, il+"w", gemC13Words...)
		if !hy && gen.Chance(rt, il+"dot", 2, 3) {
			sb.WriteString("." + w)
			if gen.Chance(rt, il+"n", 1, 2) {
				sb.WriteString(gen.SmallNum(rt, il+"d"))
			}
		} else if !hy {
			hy = true
			sb.WriteString("-" + w)
			if gen.Chance(rt, il+"n", 1, 2) {
				sb.WriteString(gen.Pick(rt, il+"sep", ".", "") + gen.SmallNum(rt, il+"d"))
			}
		} else {
			sb.WriteString("." + w)
		}
	}
	return sb.String()
}

func TestC13(t *testing.T) {
	r := newRunner(t, "C13")
	e := eco.ByName("gem")
	rapid.Check(t, func(rt *rapid.T) {
		a := gemC13Version(rt, "a")
		var b string
		if gen.Chance(rt, "nb", 3, 4) {
			b = gen.Neighbor(rt, e, a, "b")
		} else {
			b = gemC13Version(rt, "b")
		}
		if gen.Chance(rt, "swap", 1, 2) {
			a, b = b, a
		}
		if !c13InDomain(a) || !c13InDomain(b) {
			r.ev.Count("out_of_domain", 1)
			return
		}
		if _, agreed := model.GemCompare(a, b); !agreed {
			r.ev.Count("unclaimed_readings_differ", 1)
			return
		}
		kc := known.Case{Check: "order", Eco: "gem", Inputs: []string{a, b}}
		if r.check(rt, kc) && a != b && strings.ContainsAny(a+b, "abcdefghijklmnopqrstuvwxyz") {
			cls := "gem/letter-segment"
			if strings.Contains(a+b, "-") {
				cls = "gem/hyphen-pre"
			}
			r.ev.NonTrivial(cls, func() any { return kc.Inputs }, a, b)
		}
	})
}
