package props

import (
	"os"
	"strconv"
	"strings"
	"syscall"
	"time"
)

// Time limits of the harness are limits on CPU time, not on wall-clock time: a
// check must not raise an alarm because the machine is busy with something
// else. Wall-clock time is only used as a last resort (ten times the limit)
// for a call that is blocked without consuming anything.

// cpuNow is the CPU time (user+system) consumed by this process so far.
func cpuNow() time.Duration {
	var ru syscall.Rusage
	if err := syscall.Getrusage(syscall.RUSAGE_SELF, &ru); err != nil {
		return 0
	}
	return time.Duration(ru.Utime.Nano() + ru.Stime.Nano())
}

// childCPU is the CPU time consumed by process pid so far (from /proc, 100 ticks per second); ok=false if unreadable.
func childCPU(pid int) (time.Duration, bool) {
	b, err := os.ReadFile("/proc/" + strconv.Itoa(pid) + "/stat")
	if err != nil {
		return 0, false
	}
	s := string(b)
	k := strings.LastIndex(s, ")") // the command name may contain spaces
	if k < 0 {
		return 0, false
	}
	f := strings.Fields(s[k+1:])
	if len(f) < 13 {
		return 0, false
	}
	ut, e1 := strconv.ParseInt(f[11], 10, 64)
	st, e2 := strconv.ParseInt(f[12], 10, 64)
	if e1 != nil || e2 != nil {
		return 0, false
	}
	return time.Duration(ut+st) * 10 * time.Millisecond, true
}
