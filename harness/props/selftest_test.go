package props

import (
	"fmt"
	"testing"

	"pgregory.net/rapid"

	"verifharness/gen"
)

// TestSelfGen measures generator soundness: every generated version must be
// accepted by its ecosystem on the tree the harness was developed against.
// It is run by setup.sh; a rejection here is a generator defect (or a parser
// change), never reported as a property violation.
func TestSelfGen(t *testing.T) {
	for _, e := range ecosFor(t) {
		rej, n := 0, 0
		var ex []string
		distinct := map[string]bool{}
		rapid.Check(t, func(rt *rapid.T) {
			v := gen.Version(rt, e.Name, "v")
			n++
			distinct[v] = true
			if _, err := e.NewVersion(v); err != nil {
				rej++
				if len(ex) < 8 {
					ex = append(ex, v)
				}
			}
			nb := gen.Neighbor(rt, e, v, "nb")
			if _, err := e.NewVersion(nb); err != nil {
				rej++
				if len(ex) < 8 {
					ex = append(ex, "NB:"+nb)
				}
			}
		})
		fmt.Printf("selfgen %-10s generated=%d distinct=%d rejected=%d %q\n", e.Name, n, len(distinct), rej, ex)
		if rej > 0 {
			t.Errorf("%s: %d generated versions rejected: %q", e.Name, rej, ex)
		}
	}
}
