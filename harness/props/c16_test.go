package props

import (
	"fmt"
	"sort"
	"strings"
	"testing"

	"github.com/alowayed/go-univers/pkg/spec/vers"
	"pgregory.net/rapid"

	"verifharness/eco"
	"verifharness/gen"
	"verifharness/known"
	"verifharness/model"
)

// C16 — VERS results ignore constraint order, whitespace and duplicates.
// check "invariant": inputs [original range, transformed range, probe]

// versNormalSet: the constraint set of a range text, spaces removed, empties
// and duplicates dropped, sorted; ok=false if the text has no "vers:x/" head.
func versNormalSet(r string) (string, []string, bool) {
	k := strings.Index(r, "/")
	if !strings.HasPrefix(r, "vers:") || k < 0 {
		return "", nil, false
	}
	head := r[:k+1]
	seen := map[string]bool{}
	var out []string
	for _, c := range strings.Split(r[k+1:], "|") {
		c = strings.ReplaceAll(c, " ", "")
		if c == "" || seen[c] {
			continue
		}
		seen[c] = true
		out = append(out, c)
	}
	sort.Strings(out)
	return head, out, true
}

func init() {
	registerCheck("C16", "invariant", func(c known.Case) (bool, string) {
		orig, trans, probe := c.Inputs[0], c.Inputs[1], c.Inputs[2]
		h1, s1, ok1 := versNormalSet(orig)
		h2, s2, ok2 := versNormalSet(trans)
		if !ok1 || !ok2 || h1 != h2 || strings.Join(s1, "|") != strings.Join(s2, "|") {
			return false, "the second range is not a reordering / spacing / duplication of the first"
		}
		if n := strings.Count(strings.ReplaceAll(trans, " ", ""), "*"); n > 1 {
			return false, "repeating '*' is rejected by design (not claimed)"
		}
		r1, e1 := vers.Contains(orig, probe)
		if e1 != nil {
			return false, "the original range is not accepted (outside the quantifier)"
		}
		r2, e2 := vers.Contains(trans, probe)
		if e2 != nil {
			return true, fmt.Sprintf("%q is accepted (=%v) but the equivalent %q gives an error: %v", orig, r1, trans, e2)
		}
		if r1 != r2 {
			return true, fmt.Sprintf("%q gives %v but the equivalent %q gives %v for %q", orig, r1, trans, r2, probe)
		}
		return false, ""
	})
}

var allVersOps = []string{">=", "<=", ">", "<", "=", "!="}

// c16Big: a well-formed range of hundreds to thousands of constraints whose text is just below a power of two between
// 4 kB and 128 kB; the transformed text (rotated, one constraint repeated, a few spaces) is a little longer. A size
// limit applied to the raw text instead of the normalised constraints shows up as accepted-versus-error.
func c16Big(rt *rapid.T, r *runner, scheme string) {
	pfx := ""
	if scheme == "golang" {
		pfx = "v"
	}
	target := (1 << rapid.IntRange(12, 17).Draw(rt, "bigk")) - rapid.IntRange(0, 40).Draw(rt, "bigd")
	var cons []string
	size := len("vers:" + scheme + "/")
	for i := 0; ; i++ {
		op := ">="
		if i%2 == 1 {
			op = "<"
		}
		c := fmt.Sprintf("%s%s1.%d.0", op, pfx, i)
		if size+len(c)+1 > target {
			break
		}
		cons = append(cons, c)
		size += len(c) + 1
	}
	if len(cons) < 4 {
		return
	}
	// pad the last constraint's number with nothing: the text is at most one constraint short of the target; the
	// remaining distance is closed with trailing empty constraints (ignored by VERS)
	k := rapid.IntRange(0, len(cons)-1).Draw(rt, "bigrot")
	rot := append(append([]string{}, cons[k:]...), cons[:k]...)
	orig := "vers:" + scheme + "/" + strings.Join(rot, "|")
	for len(orig) < target {
		orig += "|"
	}
	var tc []string
	for i := len(rot) - 1; i >= 0; i-- {
		tc = append(tc, rot[i])
	}
	for i := 0; i < 5; i++ {
		at := rapid.IntRange(0, len(tc)-1).Draw(rt, fmt.Sprintf("bigdup%d", i))
		tc = append(tc, tc[at])
	}
	body := strings.Join(tc, "|")
	for i := 0; i < 3; i++ {
		p := rapid.IntRange(0, len(body)).Draw(rt, fmt.Sprintf("bigsp%d", i))
		body = body[:p] + " " + body[p:]
	}
	trans := "vers:" + scheme + "/" + body
	probe := fmt.Sprintf("%s1.%d.0", pfx, rapid.IntRange(0, len(cons)+1).Draw(rt, "bigprobe"))
	kc := known.Case{Check: "invariant", Eco: scheme, Inputs: []string{orig, trans, probe}}
	if r.check(rt, kc) {
		r.ev.NonTrivial(scheme+"/big-range", func() any {
			return map[string]any{"constraints": len(cons), "original_bytes": len(orig), "transformed_bytes": len(trans), "probe": probe}
		}, scheme, "big", fmt.Sprint(len(orig)), fmt.Sprint(k), probe)
	}
}

func TestC16(t *testing.T) {
	r := newRunner(t, "C16")
	for _, scheme := range schemesFor(t) {
		scheme := scheme
		e := eco.ByName(eco.Schemes[scheme])
		rapid.Check(t, func(rt *rapid.T) {
			if rapid.IntRange(0, 299).Draw(rt, "big") == 177 { // (a middle value: rapid favours the ends of a range)
				c16Big(rt, r, scheme)
				return
			}
			var cons []string
			var set []string
			if gen.Chance(rt, "star", 1, 25) {
				cons = []string{"*"}
			} else {
				cs, _, ok := versCase(rt, r, scheme)
				if !ok {
					r.ev.Count("no_case_built", 1)
					return
				}
				arbitrary := gen.Chance(rt, "arbitrary", 1, 2)
				for i, c := range cs {
					op := c.Op
					if arbitrary {
						op = gen.Pick(rt, fmt.Sprintf("op%d", i), allVersOps...)
					}
					cons = append(cons, op+c.V)
					set = append(set, c.V)
				}
			}
			var probe string
			if len(set) > 0 && gen.Chance(rt, "pnb", 4, 5) {
				from := set[rapid.IntRange(0, len(set)-1).Draw(rt, "pfrom")]
				if gen.Chance(rt, "pexact", 1, 3) {
					probe = from
				} else {
					probe = gen.Neighbor(rt, e, from, "probe")
				}
			} else {
				probe = gen.Version(rt, e.Name, "probe")
			}
			if cls := known.CycleInSet(e.Name, append(append([]string{}, set...), probe)); cls != "" {
				r.ev.Excluded("C01:" + cls)
				return
			}
			// shuffle the written order of the original too
			perm0 := rapid.Permutation(cons).Draw(rt, "perm0")
			orig := "vers:" + scheme + "/" + strings.Join(perm0, "|")
			// transformation
			tc := append([]string{}, perm0...)
			reordered, spaced, dup, empties := false, false, false, false
			if len(tc) > 1 && gen.Chance(rt, "doPerm", 3, 4) {
				tc = rapid.Permutation(tc).Draw(rt, "perm")
				reordered = strings.Join(tc, "|") != strings.Join(perm0, "|")
			}
			if cons[0] != "*" && gen.Chance(rt, "doDup", 1, 2) {
				nd := rapid.IntRange(1, 3).Draw(rt, "nd")
				for i := 0; i < nd; i++ {
					x := tc[rapid.IntRange(0, len(tc)-1).Draw(rt, fmt.Sprintf("dsrc%d", i))]
					at := rapid.IntRange(0, len(tc)).Draw(rt, fmt.Sprintf("dat%d", i))
					tc = append(tc[:at], append([]string{x}, tc[at:]...)...)
				}
				dup = true
			}
			if gen.Chance(rt, "doEmpty", 1, 3) {
				ne := rapid.IntRange(1, 2).Draw(rt, "ne")
				for i := 0; i < ne; i++ {
					at := rapid.IntRange(0, len(tc)).Draw(rt, fmt.Sprintf("eat%d", i))
					tc = append(tc[:at], append([]string{gen.Pick(rt, fmt.Sprintf("ev%d", i), "", " ", "  ")}, tc[at:]...)...)
				}
				empties = true
			}
			body := strings.Join(tc, "|")
			if gen.Chance(rt, "doSpace", 1, 2) {
				ns := rapid.IntRange(1, 3).Draw(rt, "ns")
				for i := 0; i < ns; i++ {
					at := rapid.IntRange(0, len(body)).Draw(rt, fmt.Sprintf("sat%d", i))
					body = body[:at] + gen.Pick(rt, fmt.Sprintf("sv%d", i), " ", " ", "  ") + body[at:]
				}
				spaced = true
			}
			trans := "vers:" + scheme + "/" + body
			kc := known.Case{Check: "invariant", Eco: scheme, Inputs: []string{orig, trans, probe}}
			if !r.check(rt, kc) {
				return
			}
			if _, err := vers.Contains(orig, probe); err != nil {
				r.ev.Count("original_not_accepted", 1)
				return
			}
			if reordered && len(cons) >= 3 {
				cls := scheme + "/reordered"
				if spaced {
					cls += "+spaces"
				}
				if dup {
					cls += "+duplicates"
				}
				if empties {
					cls += "+empty-constraints"
				}
				r.ev.NonTrivial(cls, func() any { return kc.Inputs }, kc.Key()...)
			} else if spaced || dup || empties {
				r.ev.Class(scheme + "/other-transformation")
			}
			_ = model.VersText
		})
	}
}
