package props

import (
	"fmt"
	"slices"
	"sort"
	"strconv"
	"strings"
	"testing"

	"pgregory.net/rapid"

	"verifharness/eco"
	"verifharness/gen"
	"verifharness/known"
)

// C07 — sorting returns the same versions in non-decreasing order.
//   sort:    inputs [mode(lib|cli), n, list (n items), permutation of the list (n items)]
//   invalid: inputs [invalid element, list containing it...]   (CLI only)

// sortVia sorts the version strings through the library idiom or the CLI.
func sortVia(mode string, e eco.Eco, in []string) ([]string, string) {
	if mode == "lib" {
		vs := make([]eco.Ver, len(in))
		for i, s := range in {
			v, err := e.NewVersion(s)
			if err != nil {
				return nil, "input rejected: " + s
			}
			vs[i] = v
		}
		slices.SortFunc(vs, func(a, b eco.Ver) int { return a.Compare(b) })
		out := make([]string, len(vs))
		for i, v := range vs {
			out[i] = v.String()
		}
		return out, ""
	}
	so, se, exit, err := runCLI(append([]string{e.Name, "sort"}, in...))
	if err != nil {
		return nil, "SKIP: cannot start the CLI: " + err.Error()
	}
	if exit != 0 || se != "" {
		return nil, fmt.Sprintf("CLI sort failed: exit %d stdout %q stderr %q", exit, truncate(so, 200), truncate(se, 200))
	}
	if !strings.HasSuffix(so, "\n") || strings.Count(so, "\n") != 1 {
		return nil, fmt.Sprintf("CLI sort did not print exactly one line: %q", truncate(so, 200))
	}
	out, perr := parseQuotedList(strings.TrimSuffix(so, "\n"))
	if perr != "" {
		return nil, perr
	}
	return out, ""
}

// parseQuotedList decodes `"a" "b" "c"` (Go %q tokens separated by one space).
func parseQuotedList(line string) ([]string, string) {
	var out []string
	rest := line
	for rest != "" {
		q, err := strconv.QuotedPrefix(rest)
		if err != nil {
			return nil, fmt.Sprintf("CLI sort output is not a list of quoted strings: %q", truncate(line, 200))
		}
		s, _ := strconv.Unquote(q)
		out = append(out, s)
		rest = rest[len(q):]
		if rest != "" {
			if rest[0] != ' ' {
				return nil, fmt.Sprintf("CLI sort output tokens are not separated by a space: %q", truncate(line, 200))
			}
			rest = rest[1:]
		}
	}
	return out, ""
}

func sameMultiset(a, b []string) bool {
	if len(a) != len(b) {
		return false
	}
	x, y := append([]string{}, a...), append([]string{}, b...)
	sort.Strings(x)
	sort.Strings(y)
	for i := range x {
		if x[i] != y[i] {
			return false
		}
	}
	return true
}

func c07Excluded(e eco.Eco, list []string) string {
	if e.Name == "alpm" {
		for _, s := range list[1:] {
			if alpmHasPkgrel(s) != alpmHasPkgrel(list[0]) {
				return "alpm list mixing versions with and without pkgrel (no transitive order exists, see C01)"
			}
		}
	}
	if cls := known.CycleInSet(e.Name, list); cls != "" {
		return "list contains a triple of the recorded C01 finding " + cls
	}
	return ""
}

func init() {
	registerCheck("C07", "sort", func(c known.Case) (bool, string) {
		e := eco.ByName(c.Eco)
		mode := c.Inputs[0]
		n, err := strconv.Atoi(c.Inputs[1])
		if err != nil || n < 1 || len(c.Inputs) != 2+2*n {
			return false, "bad lists"
		}
		l1, l2 := c.Inputs[2:2+n], c.Inputs[2+n:]
		if !sameMultiset(l1, l2) || len(l1) == 0 {
			return false, "the second list is not a permutation of the first"
		}
		if mode == "cli" && cliPath() == "" {
			return false, "no CLI binary"
		}
		for _, s := range l1 {
			if _, err := e.NewVersion(s); err != nil {
				return false, "input rejected (the property is about valid versions)"
			}
			if strings.TrimSpace(s) != s {
				return false, "inputs with surrounding whitespace are not claimed here (String() may drop it, C18)"
			}
		}
		if why := c07Excluded(e, l1); why != "" {
			return false, why
		}
		o1, bad := sortVia(mode, e, l1)
		if strings.HasPrefix(bad, "SKIP") {
			return false, bad
		}
		if bad != "" {
			return true, bad
		}
		o2, bad := sortVia(mode, e, l2)
		if bad != "" && !strings.HasPrefix(bad, "SKIP") {
			return true, bad
		}
		if !sameMultiset(o1, l1) {
			return true, fmt.Sprintf("sorted output %q is not the input multiset %q", o1, l1)
		}
		if !sameMultiset(o2, l2) {
			return true, fmt.Sprintf("sorted output %q is not the input multiset %q", o2, l2)
		}
		parse := func(xs []string) []eco.Ver {
			vs := make([]eco.Ver, len(xs))
			for i, s := range xs {
				vs[i], _ = e.NewVersion(s)
			}
			return vs
		}
		v1, v2 := parse(o1), parse(o2)
		for i := 0; i+1 < len(v1); i++ {
			if v1[i].Compare(v1[i+1]) > 0 {
				return true, fmt.Sprintf("output not in order: %q before %q", o1[i], o1[i+1])
			}
			if v2[i].Compare(v2[i+1]) > 0 {
				return true, fmt.Sprintf("output not in order: %q before %q", o2[i], o2[i+1])
			}
		}
		for i := range v1 {
			if v1[i].Compare(v2[i]) != 0 {
				return true, fmt.Sprintf("the two input orderings give different class sequences: position %d holds %q vs %q (outputs %q and %q)", i, o1[i], o2[i], o1, o2)
			}
		}
		return false, ""
	})
	registerCheck("C07", "invalid", func(c known.Case) (bool, string) {
		e := eco.ByName(c.Eco)
		if len(c.Inputs) < 2 {
			return false, "bad list"
		}
		bad, l := c.Inputs[0], c.Inputs[1:]
		if _, err := e.NewVersion(bad); err == nil {
			return false, "the element is valid"
		}
		if cliPath() == "" || strings.Contains(strings.Join(l, ""), "\x00") {
			return false, "no CLI binary / NUL in argument"
		}
		so, se, exit, err := runCLI(append([]string{e.Name, "sort"}, l...))
		if err != nil {
			return false, "cannot start"
		}
		if exit != 1 {
			return true, fmt.Sprintf("exit status %d, want 1 (stdout %q)", exit, truncate(so, 200))
		}
		if !strings.Contains(so+se, bad) {
			return true, fmt.Sprintf("the diagnostic %q does not name the invalid input %q", truncate(so+se, 200), bad)
		}
		// no partial result: no quoted valid element may be printed as a list
		if items, perr := parseQuotedList(strings.TrimSuffix(so, "\n")); perr == "" && len(items) > 0 {
			return true, fmt.Sprintf("a (partial) result list was printed: %q", truncate(so, 200))
		}
		return false, ""
	})
}

// c07List draws 1..max versions from a few bases, their neighbours, exact
// duplicates and equal-but-different spellings.
func c07List(rt *rapid.T, e eco.Eco, max int) []string {
	n := rapid.IntRange(1, max).Draw(rt, "n")
	if n > 8 && gen.Chance(rt, "short", 1, 2) {
		n = rapid.IntRange(2, 8).Draw(rt, "n2")
	}
	var list []string
	wantRel := gen.Chance(rt, "rel", 1, 2)
	ok := func(s string) bool {
		if strings.TrimSpace(s) != s || s == "" {
			return false
		}
		if e.Name == "alpm" && alpmHasPkgrel(s) != wantRel {
			return false
		}
		return true
	}
	for tries := 0; len(list) < n && tries < 6*n+10; tries++ {
		l := fmt.Sprintf("e%d", tries)
		var s string
		switch k := rapid.IntRange(0, 9).Draw(rt, l+"k"); {
		case len(list) == 0 || k == 0:
			s = gen.Version(rt, e.Name, l)
		case k <= 5:
			s = gen.Neighbor(rt, e, list[rapid.IntRange(0, len(list)-1).Draw(rt, l+"from")], l)
		case k <= 7:
			s = list[rapid.IntRange(0, len(list)-1).Draw(rt, l+"dup")]
		default:
			from := list[rapid.IntRange(0, len(list)-1).Draw(rt, l+"from")]
			if vars := gen.EqualVariants(e, from); len(vars) > 0 {
				s = vars[rapid.IntRange(0, len(vars)-1).Draw(rt, l+"var")]
			} else {
				s = from
			}
		}
		if ok(s) {
			list = append(list, s)
		}
	}
	return list
}

func TestC07(t *testing.T) {
	r := newRunner(t, "C07")
	for _, e := range ecosFor(t) {
		e := e
		rapid.Check(t, func(rt *rapid.T) {
			mode := "lib"
			if cliPath() != "" && gen.Chance(rt, "cli", 1, 5) {
				mode = "cli"
			}
			max := 64
			if mode == "cli" {
				max = 24
			}
			list := c07List(rt, e, max)
			if len(list) == 0 {
				return
			}
			if mode == "cli" && gen.Chance(rt, "invalid", 1, 4) {
				bad := gen.Corrupt(rt, list[0], "bad")
				if gen.Chance(rt, "blank", 1, 5) {
					bad = gen.Pick(rt, "blankv", "", " ", "\t", "  ", "\n")
				}
				if _, err := e.NewVersion(bad); err != nil && !strings.Contains(bad, "\x00") {
					at := rapid.IntRange(0, len(list)).Draw(rt, "at")
					l2 := append(append(append([]string{}, list[:at]...), bad), list[at:]...)
					kc := known.Case{Check: "invalid", Eco: e.Name, Inputs: append([]string{bad}, l2...)}
					if r.check(rt, kc) {
						r.ev.NonTrivial(e.Name+"/cli-invalid-element", func() any { return kc.Inputs }, kc.Key()...)
					}
				}
				return
			}
			if mode == "cli" && strings.Contains(strings.Join(list, ""), "\x00") {
				return
			}
			if why := c07Excluded(e, list); why != "" {
				r.ev.Excluded("C01-related")
				return
			}
			perm := rapid.Permutation(list).Draw(rt, "perm")
			mk := func(p []string) known.Case {
				return known.Case{Check: "sort", Eco: e.Name, Inputs: append(append([]string{mode, strconv.Itoa(len(list))}, list...), p...)}
			}
			kc := mk(perm)
			if !r.check(rt, kc) {
				return
			}
			// thorough: all permutations of short lists
			if thorough() && len(list) <= 5 && mode == "lib" {
				permute(list, func(p []string) { r.check(rt, mk(p)) })
			}
			// non-trivial: >=3 elements, a duplicate or equal-spelling pair, and an inversion in the input
			if len(list) >= 3 {
				vs := make([]eco.Ver, len(list))
				for i, s := range list {
					v, err := e.NewVersion(s)
					if err != nil {
						return
					}
					vs[i] = v
				}
				eqPair, inversion := false, false
				for i := range vs {
					for j := i + 1; j < len(vs); j++ {
						if vs[i].Compare(vs[j]) == 0 {
							eqPair = true
						}
					}
					if i+1 < len(vs) && vs[i].Compare(vs[i+1]) > 0 {
						inversion = true
					}
				}
				if eqPair && inversion {
					r.ev.NonTrivial(fmt.Sprintf("%s/%s/len<=%d", e.Name, mode, bucket(len(list))), func() any { return list }, kc.Key()...)
				}
			}
		})
	}
}

func bucket(n int) int {
	for _, b := range []int{4, 8, 16, 32, 64} {
		if n <= b {
			return b
		}
	}
	return 64
}

func permute(xs []string, f func([]string)) {
	a := append([]string{}, xs...)
	var rec func(k int)
	rec = func(k int) {
		if k == len(a) {
			f(append([]string{}, a...))
			return
		}
		for i := k; i < len(a); i++ {
			a[k], a[i] = a[i], a[k]
			rec(k + 1)
			a[k], a[i] = a[i], a[k]
		}
	}
	rec(0)
}
