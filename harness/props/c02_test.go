package props

import (
	"encoding/json"
	"fmt"
	"testing"

	"pgregory.net/rapid"

	"verifharness/eco"
	"verifharness/gen"
	"verifharness/known"
)

// C02 — comparator ranges contain exactly what Compare says.
//
// Case inputs: [range text, probe, JSON of [][]{Op,Bound}].

func init() {
	registerCheck("C02", "comparators", func(c known.Case) (bool, string) {
		if len(c.Inputs) != 3 {
			return false, "need 3 inputs"
		}
		e := eco.ByName(c.Eco)
		var groups [][]gen.Cmp
		if err := json.Unmarshal([]byte(c.Inputs[2]), &groups); err != nil {
			return false, "bad structure: " + err.Error()
		}
		probe, err := e.NewVersion(c.Inputs[1])
		if err != nil {
			return false, "probe rejected by parser"
		}
		want := false
		for _, g := range groups {
			all := true
			for _, cm := range g {
				if !gen.BoundInScope(c.Eco, cm.Bound) {
					return false, "bound out of scope"
				}
				b, err := e.NewVersion(cm.Bound)
				if err != nil {
					return false, "bound rejected by version parser"
				}
				if !cm.Holds(sign(probe.Compare(b))) {
					all = false
				}
			}
			if all {
				want = true
			}
		}
		r, err := e.NewRange(c.Inputs[0])
		if err != nil {
			return true, fmt.Sprintf("range %q of valid in-scope bounds was rejected: %v", c.Inputs[0], err)
		}
		if got := r.Contains(probe); got != want {
			return true, fmt.Sprintf("Contains(%q)=%v but the comparator formula over Compare gives %v", c.Inputs[1], got, want)
		}
		return false, ""
	})
}

func TestC02(t *testing.T) {
	r := newRunner(t, "C02")
	for _, e := range ecosFor(t) {
		e := e
		if e.Name == "maven" {
			continue // no comparator syntax (brackets only, C05)
		}
		rapid.Check(t, func(rt *rapid.T) {
			base := gen.Version(rt, e.Name, "base")
			cr, ok := gen.DrawCmpRange(rt, e, base, "r", 3, 4)
			if !ok {
				r.ev.Count("no_in_scope_bound", 1)
				return
			}
			bounds := cr.Bounds()
			var probe string
			switch rapid.IntRange(0, 5).Draw(rt, "pk") {
			case 0, 1:
				probe = bounds[rapid.IntRange(0, len(bounds)-1).Draw(rt, "pi")]
			case 2, 3, 4:
				probe = gen.Neighbor(rt, e, bounds[rapid.IntRange(0, len(bounds)-1).Draw(rt, "pi")], "pn")
			default:
				probe = gen.Version(rt, e.Name, "pf")
			}
			sj, _ := json.Marshal(cr.Groups)
			kc := known.Case{Check: "comparators", Eco: e.Name, Inputs: []string{cr.Text, probe, string(sj)}}
			if !r.check(rt, kc) {
				return
			}
			// non-triviality: equal to a bound, or mixed signs
			pv, err := e.NewVersion(probe)
			if err != nil {
				return
			}
			eq, neg, pos := false, false, false
			for _, b := range bounds {
				bv, err := e.NewVersion(b)
				if err != nil {
					return
				}
				switch sign(pv.Compare(bv)) {
				case 0:
					eq = true
				case -1:
					neg = true
				default:
					pos = true
				}
			}
			if eq || (neg && pos) {
				cls := fmt.Sprintf("%s/groups=%d", e.Name, len(cr.Groups))
				if eq {
					cls += "/probe-equals-a-bound"
				} else {
					cls += "/mixed-signs"
				}
				r.ev.NonTrivial(cls, func() any { return map[string]string{"range": cr.Text, "probe": probe} }, e.Name, cr.Text, probe)
			}
		})
	}
}
