package props

import (
	"fmt"
	"strings"
	"testing"

	"pgregory.net/rapid"

	"verifharness/eco"
	"verifharness/gen"
	"verifharness/known"
)

// C18 — parsed values keep their text; re-parsing and outer whitespace change nothing.
//
// checks:
//   version: inputs [s, lpad, rpad, partner]
//   range:   inputs [range, lpad, rpad, probe]
//   accept:  inputs [s, lpad, rpad, "version"|"range"]  (acceptance must not depend on padding)

var padPool = []string{"", "", " ", "  ", "\t", "\n", "\r\n", " \t", "\n ", "\r", " \n\t"}

func drawPad(t *rapid.T, l string) string { return gen.Pick(t, l, padPool...) }

func init() {
	registerCheck("C18", "version", func(c known.Case) (bool, string) {
		e := eco.ByName(c.Eco)
		s, lp, rp, partner := c.Inputs[0], c.Inputs[1], c.Inputs[2], c.Inputs[3]
		v, err := e.NewVersion(s)
		if err != nil {
			return false, "input rejected"
		}
		if got := v.String(); strings.TrimSpace(got) != strings.TrimSpace(s) {
			return true, fmt.Sprintf("String()=%q is not the input %q up to surrounding whitespace", got, s)
		}
		v2, err := e.NewVersion(v.String())
		if err != nil {
			return true, fmt.Sprintf("re-parsing String()=%q failed: %v", v.String(), err)
		}
		if x, y := v.Compare(v2), v2.Compare(v); x != 0 || y != 0 {
			return true, fmt.Sprintf("re-parsed value does not compare equal (%d/%d)", x, y)
		}
		p := lp + s + rp
		vp, err := e.NewVersion(p)
		if err != nil {
			return true, fmt.Sprintf("padded input %q rejected although %q is accepted: %v", p, s, err)
		}
		if got := vp.String(); strings.TrimSpace(got) != strings.TrimSpace(s) {
			return true, fmt.Sprintf("String() of padded input = %q, want %q up to whitespace", got, s)
		}
		if x, y := vp.Compare(v), v.Compare(vp); x != 0 || y != 0 {
			return true, fmt.Sprintf("padded %q vs unpadded compare %d/%d, want 0", p, x, y)
		}
		if pv, err := e.NewVersion(partner); err == nil {
			if x, y := v.Compare(pv), vp.Compare(pv); x != y {
				return true, fmt.Sprintf("Compare with %q: unpadded %d, padded %d", partner, x, y)
			}
			if x, y := pv.Compare(v), pv.Compare(vp); x != y {
				return true, fmt.Sprintf("Compare of %q with: unpadded %d, padded %d", partner, x, y)
			}
			// padding the partner must not matter either
			if pp, err := e.NewVersion(lp + partner + rp); err != nil {
				return true, fmt.Sprintf("padded partner %q rejected", lp+partner+rp)
			} else if x, y := v.Compare(pv), v.Compare(pp); x != y {
				return true, fmt.Sprintf("Compare(%q, partner): partner unpadded %d, padded %d", s, x, y)
			}
		}
		return false, ""
	})
	registerCheck("C18", "range", func(c known.Case) (bool, string) {
		e := eco.ByName(c.Eco)
		s, lp, rp, probe := c.Inputs[0], c.Inputs[1], c.Inputs[2], c.Inputs[3]
		r, err := e.NewRange(s)
		if err != nil {
			return false, "input rejected"
		}
		if got := r.String(); strings.TrimSpace(got) != strings.TrimSpace(s) {
			return true, fmt.Sprintf("String()=%q is not the input %q up to surrounding whitespace", got, s)
		}
		r2, err := e.NewRange(r.String())
		if err != nil {
			return true, fmt.Sprintf("re-parsing String()=%q failed: %v", r.String(), err)
		}
		p := lp + s + rp
		rp2, err := e.NewRange(p)
		if err != nil {
			return true, fmt.Sprintf("padded range %q rejected although %q is accepted: %v", p, s, err)
		}
		if got := rp2.String(); strings.TrimSpace(got) != strings.TrimSpace(s) {
			return true, fmt.Sprintf("String() of padded range = %q, want %q up to whitespace", got, s)
		}
		pv, err := e.NewVersion(probe)
		if err != nil {
			return false, ""
		}
		a := r.Contains(pv)
		if b := r2.Contains(pv); a != b {
			return true, fmt.Sprintf("re-parsed range disagrees on %q: %v vs %v", probe, a, b)
		}
		if b := rp2.Contains(pv); a != b {
			return true, fmt.Sprintf("padded range disagrees on %q: %v vs %v", probe, a, b)
		}
		if pp, err := e.NewVersion(lp + probe + rp); err != nil {
			return true, fmt.Sprintf("padded probe %q rejected", lp+probe+rp)
		} else if b := r.Contains(pp); a != b {
			return true, fmt.Sprintf("padded probe %q: %v, unpadded %v", lp+probe+rp, b, a)
		}
		return false, ""
	})
	registerCheck("C18", "accept", func(c known.Case) (bool, string) {
		e := eco.ByName(c.Eco)
		s, lp, rp, kind := c.Inputs[0], c.Inputs[1], c.Inputs[2], c.Inputs[3]
		var e1, e2 error
		if kind == "version" {
			_, e1 = e.NewVersion(s)
			_, e2 = e.NewVersion(lp + s + rp)
		} else {
			_, e1 = e.NewRange(s)
			_, e2 = e.NewRange(lp + s + rp)
		}
		if (e1 == nil) != (e2 == nil) {
			return true, fmt.Sprintf("%s %q: accepted=%v, padded %q: accepted=%v", kind, s, e1 == nil, lp+s+rp, e2 == nil)
		}
		return false, ""
	})
}

func TestC18(t *testing.T) {
	r := newRunner(t, "C18")
	for _, e := range ecosFor(t) {
		e := e
		rapid.Check(t, func(rt *rapid.T) {
			lp, rp := drawPad(rt, "lp"), drawPad(rt, "rp")
			switch rapid.IntRange(0, 4).Draw(rt, "kind") {
			case 0, 1: // version
				s := gen.Version(rt, e.Name, "v")
				if gen.Chance(rt, "vnb", 1, 3) {
					// a structural neighbour: tail pieces and keyword identifiers that the plain grammar does not draw
					s = gen.Neighbor(rt, e, s, "vn")
				}
				long := false
				if gen.Chance(rt, "long", 1, 10) {
					// a long version whose length sits just below a typical limit, so that the padding crosses it
					if s2 := gen.Lengthen(rt, e, s, "len"); s2 != s {
						s, long = s2, true
					}
				}
				partner := gen.Neighbor(rt, e, s, "partner")
				kc := known.Case{Check: "version", Eco: e.Name, Inputs: []string{s, lp, rp, partner}}
				if r.check(rt, kc) && lp+rp != "" {
					cls := e.Name + "/version-padded"
					if long {
						cls = e.Name + "/long-version-padded"
					}
					if v, err := e.NewVersion(s); err == nil {
						if p, err := e.NewVersion(partner); err == nil && v.Compare(p) != 0 {
							cls += "-partner-differs"
						}
					}
					r.ev.NonTrivial(cls, func() any { return kc.Inputs }, kc.Key()...)
				}
			case 2, 3: // range
				base := gen.Version(rt, e.Name, "base")
				ri, ok := gen.DrawAnyRange(rt, e, base, "r")
				if !ok {
					r.ev.Count("range_not_built", 1)
					return
				}
				probe := gen.Neighbor(rt, e, base, "probe")
				if gen.Chance(rt, "probeIsBase", 1, 3) {
					probe = base
				}
				kc := known.Case{Check: "range", Eco: e.Name, Inputs: []string{ri.Text, lp, rp, probe}}
				if r.check(rt, kc) && lp+rp != "" {
					r.ev.NonTrivial(e.Name+"/range-padded/"+ri.Kind, func() any { return kc.Inputs }, kc.Key()...)
				}
			default: // acceptance of arbitrary (mostly invalid) strings
				s := gen.Version(rt, e.Name, "v")
				s = gen.Corrupt(rt, s, "corrupt")
				kind := gen.Pick(rt, "which", "version", "range")
				kc := known.Case{Check: "accept", Eco: e.Name, Inputs: []string{s, lp, rp, kind}}
				if r.check(rt, kc) && lp+rp != "" {
					r.ev.NonTrivial(e.Name+"/accept-"+kind, func() any { return kc.Inputs }, kc.Key()...)
				}
			}
		})
	}
}
