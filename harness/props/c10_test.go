package props

import (
	"fmt"
	"os"
	"os/exec"
	"testing"

	"pgregory.net/rapid"

	"verifharness/eco"
	"verifharness/gen"
	"verifharness/known"
	"verifharness/model"
)

// C10 — Debian versions order as dpkg --compare-versions does.
// check "order": inputs [a, b]

func init() {
	registerCheck("C10", "order", func(c known.Case) (bool, string) {
		e := eco.ByName("debian")
		a, b := c.Inputs[0], c.Inputs[1]
		if !model.DpkgValid(a) || !model.DpkgValid(b) {
			return false, "not a dpkg-valid pair (out of domain)"
		}
		va, err1 := e.NewVersion(a)
		vb, err2 := e.NewVersion(b)
		if err1 != nil || err2 != nil {
			return false, "rejected by the debian parser (the property quantifies over accepted strings)"
		}
		want := model.DpkgCompare(a, b)
		if got := va.Compare(vb); sign(got) != want {
			return true, fmt.Sprintf("Compare(%q,%q)=%d, dpkg order gives %d", a, b, got, want)
		}
		if got := vb.Compare(va); sign(got) != -want {
			return true, fmt.Sprintf("Compare(%q,%q)=%d, dpkg order gives %d", b, a, got, -want)
		}
		return false, ""
	})
}

// firstDiffAfterFirstDigits: the pair agrees on its leading digit run (after an equal epoch prefix).
func sharesFirstNumber(a, b string) bool { return firstDigits(a) == firstDigits(b) && a != b }

func pairFrom(rt *rapid.T, e eco.Eco) (string, string) {
	a := gen.Version(rt, e.Name, "a")
	var b string
	if gen.Chance(rt, "nb", 3, 4) {
		b = gen.Neighbor(rt, e, a, "b")
	} else {
		b = gen.Version(rt, e.Name, "b")
	}
	if gen.Chance(rt, "swap", 1, 2) {
		a, b = b, a
	}
	return a, b
}

func TestC10(t *testing.T) {
	r := newRunner(t, "C10")
	e := eco.ByName("debian")
	var xs [][2]string
	limit := 300
	if thorough() {
		limit = 4000
	}
	defer func() { crossCheckDpkg(t, r, xs) }()
	rapid.Check(t, func(rt *rapid.T) {
		a, b := pairFrom(rt, e)
		if !model.DpkgValid(a) || !model.DpkgValid(b) {
			r.ev.Count("not_dpkg_valid", 1)
			return
		}
		if len(xs) < limit {
			xs = append(xs, [2]string{a, b})
		}
		kc := known.Case{Check: "order", Eco: "debian", Inputs: []string{a, b}}
		if r.check(rt, kc) && sharesFirstNumber(a, b) {
			r.ev.NonTrivial("debian/"+debClass(a, b), func() any { return kc.Inputs }, a, b)
		}
	})
}

func debClass(a, b string) string {
	s := a + b
	has := func(chars string) bool {
		for i := 0; i < len(s); i++ {
			for j := 0; j < len(chars); j++ {
				if s[i] == chars[j] {
					return true
				}
			}
		}
		return false
	}
	switch {
	case len(firstLongRun(a)) > 19 || len(firstLongRun(b)) > 19:
		return "long-digit-run"
	case has("~"):
		return "tilde"
	case has(":"):
		return "epoch"
	case has("+"):
		return "plus"
	case has("-"):
		return "revision"
	default:
		return "other"
	}
}

func firstLongRun(s string) string {
	best := ""
	for _, tk := range gen.Tokens(s) {
		if tk[0] >= '0' && tk[0] <= '9' && len(tk) > len(best) {
			best = tk
		}
	}
	return best
}

// crossCheckDpkg validates the reference model (not go-univers) against the
// real dpkg binary when it is installed. A disagreement is a harness defect:
// it is counted and reported on stderr, never turned into a violation.
func crossCheckDpkg(t *testing.T, r *runner, pairs [][2]string) {
	if _, err := exec.LookPath("dpkg"); err != nil {
		r.ev.Note("oracle_crosscheck", "dpkg not installed: reference model not cross-checked in this run")
		return
	}
	n, bad := 0, 0
	for _, p := range pairs {
		if exec.Command("dpkg", "--validate-version", p[0]).Run() != nil || exec.Command("dpkg", "--validate-version", p[1]).Run() != nil {
			r.ev.Count("oracle_crosscheck_dpkg_rejects_model_accepts", 1)
			fmt.Fprintf(os.Stderr, "ORACLE-NOTE: dpkg rejects %q or %q although the model's validity rule accepts them\n", p[0], p[1])
			continue
		}
		want := 0
		if exec.Command("dpkg", "--compare-versions", p[0], "lt", p[1]).Run() == nil {
			want = -1
		} else if exec.Command("dpkg", "--compare-versions", p[0], "gt", p[1]).Run() == nil {
			want = 1
		}
		n++
		if got := model.DpkgCompare(p[0], p[1]); got != want {
			bad++
			fmt.Fprintf(os.Stderr, "ORACLE-DISAGREEMENT: dpkg model %q %q model=%d dpkg=%d\n", p[0], p[1], got, want)
		}
	}
	r.ev.Count("oracle_crosscheck_pairs", int64(n))
	r.ev.Count("oracle_disagreement", int64(bad))
	r.ev.Note("oracle_crosscheck", "reference model compared with the installed dpkg --compare-versions on generated pairs")
}
