package props

import (
	"testing"

	"verifharness/eco"
)

// Native coverage-guided fuzz targets (thorough tier of C06). The semantic
// oracle is inside the target; the saved crasher is the reproducible unit.

var fuzzSeeds = []string{"", " ", "1", "1.0", "1.2.3", "v1.2.3-alpha.1+build", ">=1.0.0 <2.0.0", "^1.2.3", "~>1.2", "~=1.4.5", "==1.*", "[1.0,2.0)", "(,1.0]",
	"1.0.0 - 2.0.0", "1.x || 2.*", "1:1.0~rc1-1", "1.0_alpha1-r1", "dev-main", "1.0.0-SNAPSHOT", "v0.0.0-20230101000000-abcdefabcdef",
	"99999999999999999999999.1", ">=", "||", " - ", "[", "[,]", "()", "@dev", "1.0@dev", "!=1.2.*", "===1.0", "\x00", "\xff\xfe", "1..2", "1.-2", "-1", "+1", "1.0+", "1.0-", "~", "^", "*", "x", "1.x.x"}

func FuzzC06Versions(f *testing.F) {
	for _, s := range fuzzSeeds {
		f.Add(s)
	}
	for i, s := range harvested {
		if i%3 == 0 {
			f.Add(s)
		}
	}
	f.Fuzz(func(t *testing.T, s string) {
		for _, e := range eco.All {
			if _, bad := c06Version(e, s); bad != "" {
				t.Fatalf("C06-FUZZ eco=%s check=version %s", e.Name, bad)
			}
			if _, bad := c06Range(e, s); bad != "" {
				t.Fatalf("C06-FUZZ eco=%s check=range %s", e.Name, bad)
			}
		}
	})
}

func FuzzC06Vers(f *testing.F) {
	for _, sc := range eco.SchemeNames {
		f.Add("vers:"+sc+"/>=1.0.0|<2.0.0", "1.5.0")
		f.Add("vers:"+sc+"/<1.0|>=2.0|!=3.0|=4.0", "2.0")
	}
	f.Add("vers:npm/*", "1.0.0")
	f.Add("vers:pypi/>=1.0a1", "1.0.dev1")
	f.Add("", "")
	f.Add("vers:/", "1")
	for i, s := range harvested {
		if i%5 == 0 {
			f.Add(s, "1.0.0")
		}
	}
	f.Fuzz(func(t *testing.T, rng, ver string) {
		if _, bad := c06Vers(rng, ver); bad != "" {
			t.Fatalf("C06-FUZZ eco=vers check=vers %s", bad)
		}
	})
}
