package props

import (
	"fmt"
	"regexp"
	"testing"

	"pgregory.net/rapid"

	"verifharness/eco"
	"verifharness/gen"
	"verifharness/known"
)

// C01 — Compare is a total preorder.

var alpmRelRe = regexp.MustCompile(`-[0-9]+\s*$`)

// alpmHasPkgrel mirrors the documented syntax: a trailing "-<digits>".
func alpmHasPkgrel(s string) bool { return alpmRelRe.MatchString(s) }

// c01Excluded implements the property's sole scoped exclusion.
func c01Excluded(ecoName string, vs ...string) bool {
	if ecoName != "alpm" {
		return false
	}
	first := alpmHasPkgrel(vs[0])
	for _, v := range vs[1:] {
		if alpmHasPkgrel(v) != first {
			return true
		}
	}
	return false
}

// lawsOnTriple checks the preorder laws on the ordered triple (a,b,c) given
// the comparison function.
func lawsOnTriple(cmp func(i, j int) int) (bool, string) {
	names := []string{"a", "b", "c"}
	for i := 0; i < 3; i++ {
		for j := 0; j < 3; j++ {
			x := cmp(i, j)
			if x != -1 && x != 0 && x != 1 {
				return true, fmt.Sprintf("Compare(%s,%s)=%d is not -1, 0 or 1", names[i], names[j], x)
			}
		}
		if x := cmp(i, i); x != 0 {
			return true, fmt.Sprintf("Compare(%s,%s)=%d, want 0", names[i], names[i], x)
		}
	}
	for i := 0; i < 3; i++ {
		for j := i + 1; j < 3; j++ {
			if x, y := cmp(i, j), cmp(j, i); x != -y {
				return true, fmt.Sprintf("Compare(%s,%s)=%d but Compare(%s,%s)=%d", names[i], names[j], x, names[j], names[i], y)
			}
		}
	}
	ab, bc, ac := cmp(0, 1), cmp(1, 2), cmp(0, 2)
	if ab <= 0 && bc <= 0 {
		if ac > 0 {
			return true, fmt.Sprintf("a<=b (%d) and b<=c (%d) but Compare(a,c)=%d", ab, bc, ac)
		}
		if (ab < 0 || bc < 0) && ac == 0 {
			return true, fmt.Sprintf("a<=b (%d) and b<=c (%d) with a strict step but Compare(a,c)=0", ab, bc)
		}
	}
	return false, ""
}

func init() {
	registerCheck("C01", "laws", func(c known.Case) (bool, string) {
		if len(c.Inputs) != 3 {
			return false, "need 3 inputs"
		}
		e := eco.ByName(c.Eco)
		if c01Excluded(c.Eco, c.Inputs...) {
			return false, "excluded: mixes versions with and without pkgrel"
		}
		var vs [3]eco.Ver
		for i, s := range c.Inputs {
			v, err := e.NewVersion(s)
			if err != nil {
				return false, "input rejected by parser: " + s
			}
			vs[i] = v
		}
		return lawsOnTriple(func(i, j int) int { return vs[i].Compare(vs[j]) })
	})
}

func firstDigits(s string) string {
	for _, tk := range gen.Tokens(s) {
		if tk[0] >= '0' && tk[0] <= '9' {
			return tk
		}
	}
	return ""
}

func TestC01(t *testing.T) {
	r := newRunner(t, "C01")
	for _, e := range ecosFor(t) {
		e := e
		rapid.Check(t, func(rt *rapid.T) {
			const n = 5
			pool := gen.Pool(rt, e, n, "p")
			vs := make([]eco.Ver, n)
			for i, s := range pool {
				v, err := e.NewVersion(s)
				if err != nil {
					r.ev.Count("rejected_by_parser", 1)
					return
				}
				vs[i] = v
			}
			var m [n][n]int
			for i := 0; i < n; i++ {
				for j := 0; j < n; j++ {
					m[i][j] = vs[i].Compare(vs[j])
				}
			}
			knownClass := known.PoolMatcher("C01", e.Name, pool)
			for i := 0; i < n; i++ {
				for j := 0; j < n; j++ {
					for k := 0; k < n; k++ {
						a, b, c := pool[i], pool[j], pool[k]
						if c01Excluded(e.Name, a, b, c) {
							r.ev.Count("excluded_by_property_scope", 1)
							continue
						}
						kc := known.Case{Property: "C01", Check: "laws", Eco: e.Name, Inputs: []string{a, b, c}}
						if cls := knownClass(i, j, k); cls != "" {
							r.ev.Excluded(cls)
							continue
						}
						r.ev.Eval()
						idx := [3]int{i, j, k}
						bad, detail := lawsOnTriple(func(x, y int) int { return m[idx[x]][idx[y]] })
						if bad {
							// confirm through the replay oracle (fresh parse) before reporting
							if bad2, d2, _ := evalCase(kc); bad2 {
								kc.Detail = d2
								r.violation(rt, kc)
							}
							rt.Fatalf("HARNESS-ERROR: matrix says %q but replay oracle disagrees for %v", detail, kc.Inputs)
						}
						if a != b && b != c && a != c && firstDigits(a) == firstDigits(b) && firstDigits(b) == firstDigits(c) {
							cls := "distinct-same-first-number"
							if m[i][j] == 0 || m[j][k] == 0 {
								cls = "distinct-same-first-number-with-equal-pair"
							}
							r.ev.NonTrivial(e.Name+"/"+cls, func() any { return []string{a, b, c} }, e.Name, a, b, c)
						}
					}
				}
			}
		})
	}
}
