package props

import (
	"fmt"
	"strings"
	"testing"

	"pgregory.net/rapid"

	"verifharness/eco"
	"verifharness/gen"
	"verifharness/known"
)

// C20 — range membership depends only on a version's place in the order.
//
// checks:
//   equal:  inputs [range, v1, v2]     v1, v2 compare equal => same membership
//   convex: inputs [range, a, b, c]    conjunctive range, a<=b<=c, contains a and c => contains b

func init() {
	registerCheck("C20", "equal", func(c known.Case) (bool, string) {
		e := eco.ByName(c.Eco)
		r, err := e.NewRange(c.Inputs[0])
		if err != nil {
			return false, "range rejected"
		}
		v1, err1 := e.NewVersion(c.Inputs[1])
		v2, err2 := e.NewVersion(c.Inputs[2])
		if err1 != nil || err2 != nil {
			return false, "version rejected"
		}
		if v1.Compare(v2) != 0 || v2.Compare(v1) != 0 {
			return false, "versions do not compare equal (premise not met)"
		}
		if c.Eco == "pypi" && strings.Contains(c.Inputs[0], "===") {
			return false, "excluded: pypi '===' compares the text by documentation"
		}
		if c.Eco == "alpm" && alpmHasPkgrel(c.Inputs[1]) != alpmHasPkgrel(c.Inputs[2]) {
			return false, "excluded: alpm pair differing in pkgrel presence"
		}
		if a, b := r.Contains(v1), r.Contains(v2); a != b {
			return true, fmt.Sprintf("%q and %q compare equal but Contains gives %v and %v", c.Inputs[1], c.Inputs[2], a, b)
		}
		return false, ""
	})
	registerCheck("C20", "convex", func(c known.Case) (bool, string) {
		e := eco.ByName(c.Eco)
		r, err := e.NewRange(c.Inputs[0])
		if err != nil {
			return false, "range rejected"
		}
		var vs [3]eco.Ver
		for i := 0; i < 3; i++ {
			v, err := e.NewVersion(c.Inputs[1+i])
			if err != nil {
				return false, "version rejected"
			}
			vs[i] = v
		}
		if c01Excluded(c.Eco, c.Inputs[1:]...) {
			return false, "excluded: alpm triple mixing pkgrel presence"
		}
		if !(vs[0].Compare(vs[1]) <= 0 && vs[1].Compare(vs[2]) <= 0 && vs[0].Compare(vs[2]) <= 0) {
			return false, "premise a<=b<=c not met"
		}
		if r.Contains(vs[0]) && r.Contains(vs[2]) && !r.Contains(vs[1]) {
			return true, fmt.Sprintf("contains %q and %q but not %q which lies between them", c.Inputs[1], c.Inputs[3], c.Inputs[2])
		}
		return false, ""
	})
}

func TestC20(t *testing.T) {
	r := newRunner(t, "C20")
	for _, e := range ecosFor(t) {
		e := e
		rapid.Check(t, func(rt *rapid.T) {
			base := gen.Version(rt, e.Name, "base")
			// the range is written around a neighbour of the base or (half of the time) around the base itself, so that
			// bounds and probes also coincide textually
			rbase := gen.Neighbor(rt, e, base, "rb")
			if gen.Chance(rt, "rbSame", 1, 2) {
				rbase = base
			}
			ri, ok := gen.DrawAnyRange(rt, e, rbase, "r")
			if !ok {
				r.ev.Count("range_not_built", 1)
				return
			}
			if ri.Kind == "identity" { // pypi === compares text by documentation
				r.ev.Count("identity_operator_skipped", 1)
				return
			}
			if rapid.IntRange(0, 1).Draw(rt, "which") == 0 {
				// (i) equal pairs
				v := base
				if gen.Chance(rt, "useNb", 1, 2) {
					v = gen.Neighbor(rt, e, base, "ev")
				}
				vars := gen.EqualVariants(e, v)
				if len(vars) == 0 {
					r.ev.Count("no_equal_variant", 1)
					return
				}
				v2 := vars[rapid.IntRange(0, len(vars)-1).Draw(rt, "vi")]
				if e.Name == "alpm" && alpmHasPkgrel(v) != alpmHasPkgrel(v2) {
					r.ev.Count("excluded_by_property_scope", 1)
					return
				}
				kc := known.Case{Check: "equal", Eco: e.Name, Inputs: []string{ri.Text, v, v2}}
				if r.check(rt, kc) {
					r.ev.NonTrivial(e.Name+"/equal-pair/"+ri.Kind, func() any { return kc.Inputs }, kc.Key()...)
				}
				return
			}
			// (ii) convexity
			if !ri.Conjunctive {
				r.ev.Count("non_conjunctive_range_skipped", 1)
				return
			}
			rg, err := e.NewRange(ri.Text)
			if err != nil {
				return
			}
			const n = 6
			pool := make([]string, 0, n)
			pool = append(pool, base)
			for i := 1; i < n; i++ {
				from := pool[rapid.IntRange(0, len(pool)-1).Draw(rt, fmt.Sprintf("from%d", i))]
				pool = append(pool, gen.Neighbor(rt, e, from, fmt.Sprintf("n%d", i)))
			}
			vs := make([]eco.Ver, n)
			in := make([]bool, n)
			for i, s := range pool {
				v, err := e.NewVersion(s)
				if err != nil {
					return
				}
				vs[i] = v
				in[i] = rg.Contains(v)
			}
			for i := 0; i < n; i++ {
				for j := 0; j < n; j++ {
					for k := 0; k < n; k++ {
						if i == j || j == k || i == k || !in[i] || !in[k] {
							continue
						}
						if !(vs[i].Compare(vs[j]) <= 0 && vs[j].Compare(vs[k]) <= 0 && vs[i].Compare(vs[k]) <= 0) {
							continue
						}
						if c01Excluded(e.Name, pool[i], pool[j], pool[k]) {
							continue
						}
						kc := known.Case{Check: "convex", Eco: e.Name, Inputs: []string{ri.Text, pool[i], pool[j], pool[k]}}
						if r.check(rt, kc) && vs[i].Compare(vs[j]) < 0 && vs[j].Compare(vs[k]) < 0 {
							r.ev.NonTrivial(e.Name+"/convex/"+ri.Kind, func() any { return kc.Inputs }, kc.Key()...)
						}
					}
				}
			}
		})
	}
}
