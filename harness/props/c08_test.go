package props

import (
	"fmt"
	"strings"
	"testing"

	xsemver "golang.org/x/mod/semver"
	"pgregory.net/rapid"

	"verifharness/eco"
	"verifharness/gen"
	"verifharness/known"
	"verifharness/model"
)

// C08 — SemVer-family ecosystems implement SemVer 2.0.0 precedence.
//   order:  inputs [a, b]
//   strict: inputs [s]    (semver only) s is not valid SemVer 2.0.0 => rejected

var semFamily = []string{"semver", "npm", "cargo", "hex", "golang", "nuget"}

func inSemFamily(n string) bool {
	for _, x := range semFamily {
		if x == n {
			return true
		}
	}
	return false
}

// c08InDomain: numeric identifiers without leading zeros; nuget single-case.
func c08InDomain(ecoName, s string) bool {
	_, pre := model.SemverParse(s)
	for _, id := range pre {
		if id == "" {
			return false
		}
		if len(id) > 1 && id[0] == '0' && strings.Trim(id, "0123456789") == "" {
			return false
		}
		if len(id) > 18 && strings.Trim(id, "0123456789") == "" {
			return false // the quantifier stops at 18-digit numeric identifiers
		}
	}
	if ecoName == "nuget" {
		if k := strings.Index(s, "+"); k >= 0 {
			s = s[:k]
		}
		if s != strings.ToLower(s) {
			return false
		}
	}
	return true
}

func init() {
	registerCheck("C08", "order", func(c known.Case) (bool, string) {
		if !inSemFamily(c.Eco) {
			return false, "not a SemVer-family ecosystem"
		}
		e := eco.ByName(c.Eco)
		a, b := c.Inputs[0], c.Inputs[1]
		if !c08InDomain(c.Eco, a) || !c08InDomain(c.Eco, b) {
			return false, "out of domain"
		}
		va, err1 := e.NewVersion(a)
		vb, err2 := e.NewVersion(b)
		if err1 != nil || err2 != nil {
			return false, "rejected by the parser (the property quantifies over accepted strings)"
		}
		want := model.SemverCompare(a, b)
		if got := va.Compare(vb); sign(got) != want {
			return true, fmt.Sprintf("Compare(%q,%q)=%d, SemVer 2.0.0 precedence gives %d", a, b, got, want)
		}
		if got := vb.Compare(va); sign(got) != -want {
			return true, fmt.Sprintf("Compare(%q,%q)=%d, SemVer 2.0.0 precedence gives %d", b, a, got, -want)
		}
		return false, ""
	})
	registerCheck("C08", "strict", func(c known.Case) (bool, string) {
		s := c.Inputs[0]
		if model.SemverValid(strings.TrimSpace(s)) {
			return false, "valid SemVer: nothing claimed"
		}
		if _, err := eco.ByName("semver").NewVersion(s); err == nil {
			return true, fmt.Sprintf("%q is not valid SemVer 2.0.0 but the semver ecosystem accepts it", s)
		}
		return false, ""
	})
}

// semPair draws a pair of versions of a SemVer-family ecosystem that mostly
// share their numeric core and differ in the pre-release part.
func semPair(rt *rapid.T, name string) (string, string) {
	prefix := ""
	switch name {
	case "golang":
		prefix = gen.Pick(rt, "pfx", "v", "v", "")
	case "npm":
		prefix = gen.Pick(rt, "pfx", "", "", "v", "=")
	case "nuget":
		prefix = gen.Pick(rt, "pfx", "", "", "v")
	}
	num := gen.NumOpts{}
	nc := 3
	if name == "nuget" {
		nc = rapid.IntRange(1, 4).Draw(rt, "nc")
	}
	core := gen.Dotted(rt, "core", nc, nc, num)
	lower := name == "nuget"
	pre := func(l string) string {
		if gen.Chance(rt, l+"none", 1, 5) {
			return ""
		}
		p := gen.SemPre(rt, l, 6)
		if lower {
			p = strings.ToLower(p)
		}
		return "-" + p
	}
	build := func(l string) string {
		if gen.Chance(rt, l+"b", 1, 4) {
			return "+" + gen.Pick(rt, l+"bv", "build", "1", "b.1", "exp.sha.5114f85", "001")
		}
		return ""
	}
	pa := pre("pa")
	a := prefix + core + pa + build("ba")
	var b string
	switch rapid.IntRange(0, 9).Draw(rt, "bk") {
	case 0: // different core
		b = prefix + gen.Dotted(rt, "core2", nc, nc, num) + pre("pb") + build("bb")
	case 1, 2, 3: // same core, fresh pre-release
		b = prefix + core + pre("pb") + build("bb")
	default: // same core, edited pre-release list
		ids := []string{}
		if pa != "" {
			ids = strings.Split(pa[1:], ".")
		}
		switch rapid.IntRange(0, 3).Draw(rt, "edit") {
		case 0:
			if len(ids) > 0 {
				i := rapid.IntRange(0, len(ids)-1).Draw(rt, "ei")
				ids[i] = gen.SemIdent(rt, "eid")
			}
		case 1:
			ids = append(ids, gen.SemIdent(rt, "eid"))
		case 2:
			if len(ids) > 1 {
				ids = ids[:len(ids)-1]
			}
		default:
			if len(ids) > 0 {
				i := rapid.IntRange(0, len(ids)-1).Draw(rt, "ei")
				if strings.Trim(ids[i], "0123456789") == "" {
					ids[i] = gen.Pick(rt, "en", "0", "1", "2", "9", "10", "11", "100", "123456789012345679")
				} else {
					ids[i] = ids[i] + gen.Pick(rt, "es", "a", "1", "-", "0")
				}
			}
		}
		p := strings.Join(ids, ".")
		if lower {
			p = strings.ToLower(p)
		}
		if p != "" {
			p = "-" + p
		}
		b = prefix + core + p + build("bb")
	}
	if name == "golang" && gen.Chance(rt, "pseudo", 1, 3) {
		// pseudo-version against releases / pre-releases / pseudo-versions of neighbouring bases
		ps := gen.GolangPseudo(rt, "ps")
		if gen.Chance(rt, "psboth", 1, 3) {
			a = gen.GolangPseudo(rt, "ps2")
		} else {
			// neighbour base: the pseudo-version's own core, +-1 on the patch, with or without pre-release
			n, _ := model.SemverParse(ps)
			patch := n[2]
			switch rapid.IntRange(0, 2).Draw(rt, "pn") {
			case 0:
			case 1:
				patch = gen.Pick(rt, "pp", "0", "1", "2", "3")
			default:
				patch = n[2] + "0"
				patch = strings.TrimLeft(patch, "0")
				if patch == "" {
					patch = "0"
				}
			}
			a = "v" + n[0] + "." + n[1] + "." + patch + pre("pp2")
		}
		b = ps
	}
	if gen.Chance(rt, "swap", 1, 2) {
		a, b = b, a
	}
	return a, b
}

func TestC08(t *testing.T) {
	r := newRunner(t, "C08")
	xn, xbad := int64(0), int64(0)
	defer func() {
		r.ev.Count("oracle_crosscheck_pairs", xn)
		r.ev.Count("oracle_disagreement", xbad)
		r.ev.Note("oracle_crosscheck", "reference model compared in-process with golang.org/x/mod/semver on every three-component pair that x/mod accepts")
	}()
	for _, e := range ecosFor(t) {
		e := e
		if !inSemFamily(e.Name) {
			continue
		}
		rapid.Check(t, func(rt *rapid.T) {
			if e.Name == "semver" && gen.Chance(rt, "strict", 1, 4) {
				s := gen.Version(rt, "semver", "sv")
				switch rapid.IntRange(0, 5).Draw(rt, "sk") {
				case 0: // leading zero on a numeric token
					toks := gen.Tokens(s)
					var idx []int
					for i, tk := range toks {
						if tk[0] >= '0' && tk[0] <= '9' {
							idx = append(idx, i)
						}
					}
					i := idx[rapid.IntRange(0, len(idx)-1).Draw(rt, "zi")]
					toks[i] = "0" + toks[i]
					s = strings.Join(toks, "")
				case 1: // empty identifier
					s = s + gen.Pick(rt, "emp", "-", "-a..b", "-.", "-a.", "+", "+a..b")
				case 2: // missing component
					n, _ := model.SemverParse(s)
					s = n[0] + "." + n[1]
				case 3:
					s = "v" + s
				case 4:
					s = gen.Corrupt(rt, s, "cor")
				default:
					n, _ := model.SemverParse(s)
					s = n[0] + "." + n[1] + "." + n[2] + "." + n[0]
				}
				kc := known.Case{Check: "strict", Eco: "semver", Inputs: []string{s}}
				if r.check(rt, kc) && !model.SemverValid(strings.TrimSpace(s)) {
					r.ev.NonTrivial("semver/strict-invalid", func() any { return s }, "strict", s)
				}
				return
			}
			a, b := semPair(rt, e.Name)
			if !c08InDomain(e.Name, a) || !c08InDomain(e.Name, b) {
				r.ev.Count("out_of_domain", 1)
				return
			}
			// in-process validation of the model against x/mod/semver
			na, _ := model.SemverParse(a)
			nb, _ := model.SemverParse(b)
			_ = na
			_ = nb
			xa, xb := "v"+strings.TrimLeft(strings.TrimSpace(a), "=v"), "v"+strings.TrimLeft(strings.TrimSpace(b), "=v")
			if xsemver.IsValid(xa) && xsemver.IsValid(xb) && strings.Count(strings.SplitN(strings.SplitN(xa, "-", 2)[0], "+", 2)[0], ".") == 2 && strings.Count(strings.SplitN(strings.SplitN(xb, "-", 2)[0], "+", 2)[0], ".") == 2 {
				xn++
				if xsemver.Compare(xa, xb) != model.SemverCompare(a, b) {
					xbad++
					fmt.Printf("ORACLE-DISAGREEMENT: semver model %q %q model=%d x/mod=%d\n", a, b, model.SemverCompare(a, b), xsemver.Compare(xa, xb))
					return
				}
			}
			kc := known.Case{Check: "order", Eco: e.Name, Inputs: []string{a, b}}
			if r.check(rt, kc) {
				n1, p1 := model.SemverParse(a)
				n2, p2 := model.SemverParse(b)
				if strings.Join(n1, ".") == strings.Join(n2, ".") && strings.Join(p1, ".") != strings.Join(p2, ".") {
					cls := "same-core-different-prerelease"
					if strings.Contains(a+b, "-0.20") || strings.Contains(a+b, ".0.20") || strings.Count(a, "-") >= 2 && e.Name == "golang" {
						cls = "pseudo-version"
					}
					r.ev.NonTrivial(e.Name+"/"+cls, func() any { return kc.Inputs }, e.Name, a, b)
				}
			}
		})
	}
}
