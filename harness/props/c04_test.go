package props

import (
	"encoding/json"
	"fmt"
	"sort"
	"strings"
	"testing"

	"github.com/alowayed/go-univers/pkg/spec/vers"
	"pgregory.net/rapid"

	"verifharness/eco"
	"verifharness/gen"
	"verifharness/known"
	"verifharness/model"
)

// C04 — VERS containment is union-of-intervals under the scheme's order.
// check "contains": inputs [scheme, probe, JSON []{op,v}]

// versBoundOK: a version that can be written inside a VERS constraint without
// changing the range's structure (no whitespace, '|', '*', no leading operator).
func versBoundOK(v string) bool {
	if v == "" || strings.ContainsAny(v, " \t\r\n|*") || strings.ContainsAny(v[:1], "<>=!") {
		return false
	}
	for i := 0; i < len(v); i++ {
		if v[i] < 33 || v[i] > 126 {
			return false
		}
	}
	return true
}

func init() {
	registerCheck("C04", "contains", func(c known.Case) (bool, string) {
		scheme, probe := c.Inputs[0], c.Inputs[1]
		en, ok := eco.Schemes[scheme]
		if !ok {
			return false, "unknown scheme"
		}
		e := eco.ByName(en)
		var cs []model.VC
		if err := json.Unmarshal([]byte(c.Inputs[2]), &cs); err != nil {
			return false, "bad constraints"
		}
		for _, x := range cs {
			if !versBoundOK(x.V) {
				return false, "bound out of scope"
			}
		}
		want, okm := model.VersEval(e, scheme, cs, probe)
		if !okm {
			return false, "outside the domain (invalid version, equal bounds or non-alternating comparators)"
		}
		// the model works on the constraints sorted by version; the range text may list them in any order (inputs[3],
		// optional: a permutation of the constraint indices), which VERS normalises away
		written := cs
		if len(c.Inputs) > 3 {
			var perm []int
			if err := json.Unmarshal([]byte(c.Inputs[3]), &perm); err != nil || len(perm) != len(cs) {
				return false, "bad permutation"
			}
			seen := map[int]bool{}
			written = nil
			for _, k := range perm {
				if k < 0 || k >= len(cs) || seen[k] {
					return false, "bad permutation"
				}
				seen[k] = true
				written = append(written, cs[k])
			}
		}
		text := model.VersText(scheme, written)
		got, err := vers.Contains(text, probe)
		if err != nil {
			return true, fmt.Sprintf("vers.Contains(%q, %q) returned an error for a well-formed range: %v", text, probe, err)
		}
		if got != want {
			return true, fmt.Sprintf("vers.Contains(%q, %q) = %v, interval semantics give %v", text, probe, got, want)
		}
		return false, ""
	})
}

var loOps = []string{">", ">="}
var hiOps = []string{"<", "<="}

// versShape draws a valid comparator shape of n constraints: positions of '='
// and '!=' anywhere, the remaining ones alternate starting with an optional
// upper bound.
func versShape(rt *rapid.T, n int) []string {
	ops := make([]string, n)
	startUpper := gen.Chance(rt, "startUpper", 1, 2)
	next := "lo"
	if startUpper {
		next = "hi"
	}
	for i := 0; i < n; i++ {
		k := rapid.IntRange(0, 9).Draw(rt, fmt.Sprintf("sk%d", i))
		switch {
		case k == 0:
			ops[i] = "="
		case k == 1:
			ops[i] = "!="
		case next == "lo":
			ops[i] = gen.Pick(rt, fmt.Sprintf("lo%d", i), loOps...)
			next = "hi"
		default:
			ops[i] = gen.Pick(rt, fmt.Sprintf("hi%d", i), hiOps...)
			next = "lo"
		}
	}
	return ops
}

// versCase draws a well-formed range of the scheme with pairwise distinct
// bounds sorted by the scheme's order, plus a list of probes.
func versCase(rt *rapid.T, r *runner, scheme string) (cs []model.VC, probes []string, ok bool) {
	e := eco.ByName(eco.Schemes[scheme])
	n := rapid.IntRange(1, 8).Draw(rt, "n")
	base := gen.Version(rt, e.Name, "base")
	type bv struct {
		s string
		v eco.Ver
	}
	var bs []bv
	for tries := 0; len(bs) < n && tries < 4*n+8; tries++ {
		var s string
		tl := fmt.Sprintf("b%d", tries)
		if len(bs) == 0 || gen.Chance(rt, tl+"nb", 4, 5) {
			from := base
			if len(bs) > 0 {
				from = bs[rapid.IntRange(0, len(bs)-1).Draw(rt, tl+"from")].s
			}
			s = gen.Neighbor(rt, e, from, tl)
		} else {
			s = gen.Version(rt, e.Name, tl+"fresh")
		}
		if !versBoundOK(s) {
			continue
		}
		v, err := e.NewVersion(s)
		if err != nil {
			continue
		}
		dup := false
		for _, b := range bs {
			if b.v.Compare(v) == 0 || v.Compare(b.v) == 0 {
				dup = true
			}
		}
		if !dup {
			bs = append(bs, bv{s, v})
		}
	}
	if len(bs) == 0 {
		return nil, nil, false
	}
	n = len(bs)
	var all []string
	for _, b := range bs {
		all = append(all, b.s)
	}
	sort.SliceStable(bs, func(i, j int) bool { return bs[i].v.Compare(bs[j].v) < 0 })
	ops := versShape(rt, n)
	for i := range bs {
		cs = append(cs, model.VC{Op: ops[i], V: bs[i].s})
	}
	// probes: every bound, neighbours of bounds, fresh
	probes = append(probes, all...)
	np := rapid.IntRange(2, 6).Draw(rt, "np")
	for i := 0; i < np; i++ {
		pl := fmt.Sprintf("p%d", i)
		if gen.Chance(rt, pl+"fresh", 1, 6) {
			probes = append(probes, gen.Version(rt, e.Name, pl))
		} else {
			probes = append(probes, gen.Neighbor(rt, e, all[rapid.IntRange(0, len(all)-1).Draw(rt, pl+"from")], pl))
		}
	}
	return cs, probes, true
}

func versClass(cs []model.VC) string {
	var shape []string
	for _, c := range cs {
		shape = append(shape, c.Op)
	}
	first, last := "", ""
	for _, c := range cs {
		if c.Op != "=" && c.Op != "!=" {
			if first == "" {
				first = c.Op
			}
			last = c.Op
		}
	}
	cls := fmt.Sprintf("n=%d", len(cs))
	if first != "" && first[0] == '<' {
		cls += "/leading-upper"
	}
	if last != "" && last[0] == '>' {
		cls += "/trailing-lower"
	}
	if strings.Contains(strings.Join(shape, " "), "=") && (contains(shape, "=") || contains(shape, "!=")) {
		cls += "/with-eq-or-ne"
	}
	return cls
}

func TestC04(t *testing.T) {
	r := newRunner(t, "C04")
	for _, scheme := range schemesFor(t) {
		scheme := scheme
		e := eco.ByName(eco.Schemes[scheme])
		rapid.Check(t, func(rt *rapid.T) {
			if gen.Chance(rt, "star", 1, 40) {
				// vers:<scheme>/* contains every valid version
				probe := gen.Version(rt, e.Name, "sp")
				r.ev.Eval()
				got, err := vers.Contains("vers:"+scheme+"/*", probe)
				if err != nil || !got {
					kc := known.Case{Property: "C04", Check: "star", Eco: scheme, Inputs: []string{scheme, probe}, Detail: fmt.Sprintf("vers:%s/* on %q gave %v, %v", scheme, probe, got, err)}
					r.violation(rt, kc)
				}
				return
			}
			cs, probes, ok := versCase(rt, r, scheme)
			if !ok {
				r.ev.Count("no_case_built", 1)
				return
			}
			var set []string
			for _, c := range cs {
				set = append(set, c.V)
			}
			cj, _ := json.Marshal(cs)
			// half of the ranges are written in a random order of their constraints
			var permJSON string
			if len(cs) > 1 && gen.Chance(rt, "shuffle", 1, 2) {
				idx := make([]int, len(cs))
				for i := range idx {
					idx[i] = i
				}
				pj, _ := json.Marshal(rapid.Permutation(idx).Draw(rt, "perm"))
				permJSON = string(pj)
			}
			// probes that compare equal to a bound but are spelled differently
			for i, c := range cs {
				if vars := gen.EqualVariants(e, c.V); len(vars) > 0 && gen.Chance(rt, fmt.Sprintf("eqv%d", i), 1, 3) {
					probes = append(probes, vars[rapid.IntRange(0, len(vars)-1).Draw(rt, fmt.Sprintf("eqi%d", i))])
				}
			}
			for _, probe := range probes {
				if cls := known.CycleInSet(e.Name, append(append([]string{}, set...), probe)); cls != "" {
					r.ev.Excluded("C01:" + cls)
					continue
				}
				if _, okm := model.VersEval(e, scheme, cs, probe); !okm {
					r.ev.Count("outside_domain", 1)
					continue
				}
				kc := known.Case{Check: "contains", Eco: scheme, Inputs: []string{scheme, probe, string(cj)}}
				if permJSON != "" {
					kc.Inputs = append(kc.Inputs, permJSON)
				}
				if r.check(rt, kc) && len(cs) >= 3 {
					cls := versClass(cs)
					if cls != fmt.Sprintf("n=%d", len(cs)) {
						r.ev.NonTrivial(scheme+"/"+cls, func() any { return map[string]string{"range": model.VersText(scheme, cs), "probe": probe} }, scheme, string(cj), probe)
					}
				}
			}
		})
	}
}

func init() {
	registerCheck("C04", "star", func(c known.Case) (bool, string) {
		got, err := vers.Contains("vers:"+c.Inputs[0]+"/*", c.Inputs[1])
		en, ok := eco.Schemes[c.Inputs[0]]
		if !ok {
			return false, "unknown scheme"
		}
		if _, perr := eco.ByName(en).NewVersion(c.Inputs[1]); perr != nil {
			return false, "probe not a valid version"
		}
		if err != nil || !got {
			return true, fmt.Sprintf("vers:%s/* on %q gave %v, %v", c.Inputs[0], c.Inputs[1], got, err)
		}
		return false, ""
	})
}
