package props

import (
	"fmt"
	"os"
	"reflect"
	"sort"
	"strconv"
	"strings"
	"sync"
	"sync/atomic"
	"testing"

	"github.com/alowayed/go-univers/pkg/spec/vers"
	"pgregory.net/rapid"

	"verifharness/eco"
	"verifharness/gen"
	"verifharness/known"
)

// C19 — all operations are pure and safe for concurrent use.
// check "purity": inputs [goroutines, nv, nr, versions..., ranges..., ops...]
// an op is "nv:<i>", "nr:<i>" (re-parse pool string i), "cmp:<i>:<j>", "con:<r>:<i>", "str:<i>", "rstr:<r>", "vers:<r>:<i>"

type c19World struct {
	e       eco.Eco
	scheme  string // VERS scheme served by this ecosystem ("" if none)
	vtext   []string
	rtext   []string
	vs      []eco.Ver
	rs      []eco.Rng
	versRng []string // VERS range texts (only when scheme != "")
}

func (w *c19World) exec(op string) string {
	p := strings.Split(op, ":")
	at := func(k int) int { n, _ := strconv.Atoi(p[k]); return n }
	switch p[0] {
	case "nv":
		v, err := w.e.NewVersion(w.vtext[at(1)])
		if err != nil {
			return "err"
		}
		return "ok:" + v.String()
	case "nr":
		r, err := w.e.NewRange(w.rtext[at(1)])
		if err != nil {
			return "err"
		}
		return "ok:" + r.String()
	case "cmp":
		return strconv.Itoa(w.vs[at(1)].Compare(w.vs[at(2)]))
	case "con":
		return strconv.FormatBool(w.rs[at(1)].Contains(w.vs[at(2)]))
	case "str":
		return w.vs[at(1)].String()
	case "rstr":
		return w.rs[at(1)].String()
	case "vers":
		got, err := vers.Contains(w.versRng[at(1)], w.vtext[at(2)])
		return fmt.Sprintf("%v/%v", got, err != nil)
	}
	return "?"
}

// snapshot renders a value structurally (unexported fields included, pointers followed).
func snapshot(x any) string {
	var sb strings.Builder
	seen := map[uintptr]bool{}
	var walk func(v reflect.Value, depth int)
	walk = func(v reflect.Value, depth int) {
		if depth > 12 {
			sb.WriteString("...")
			return
		}
		switch v.Kind() {
		case reflect.Ptr:
			if v.IsNil() {
				sb.WriteString("nil")
				return
			}
			if seen[v.Pointer()] {
				sb.WriteString("<cycle>")
				return
			}
			seen[v.Pointer()] = true
			sb.WriteString("&")
			walk(v.Elem(), depth+1)
		case reflect.Interface:
			if v.IsNil() {
				sb.WriteString("nil")
				return
			}
			walk(v.Elem(), depth+1)
		case reflect.Struct:
			sb.WriteString(v.Type().String() + "{")
			for i := 0; i < v.NumField(); i++ {
				sb.WriteString(v.Type().Field(i).Name + ":")
				walk(v.Field(i), depth+1)
				sb.WriteString(",")
			}
			sb.WriteString("}")
		case reflect.Slice, reflect.Array:
			if v.Kind() == reflect.Slice && v.IsNil() {
				sb.WriteString("nil[]")
				return
			}
			sb.WriteString("[")
			for i := 0; i < v.Len(); i++ {
				walk(v.Index(i), depth+1)
				sb.WriteString(",")
			}
			sb.WriteString("]")
		case reflect.Map:
			keys := v.MapKeys()
			strs := make([]string, len(keys))
			for i, k := range keys {
				var kb strings.Builder
				kb.WriteString(fmt.Sprint(k))
				strs[i] = kb.String()
			}
			sort.Strings(strs)
			sb.WriteString("map" + fmt.Sprint(strs))
		case reflect.String:
			sb.WriteString(strconv.Quote(v.String()))
		case reflect.Int, reflect.Int8, reflect.Int16, reflect.Int32, reflect.Int64:
			sb.WriteString(strconv.FormatInt(v.Int(), 10))
		case reflect.Uint, reflect.Uint8, reflect.Uint16, reflect.Uint32, reflect.Uint64, reflect.Uintptr:
			sb.WriteString(strconv.FormatUint(v.Uint(), 10))
		case reflect.Bool:
			sb.WriteString(strconv.FormatBool(v.Bool()))
		case reflect.Float32, reflect.Float64:
			sb.WriteString(strconv.FormatFloat(v.Float(), 'g', -1, 64))
		case reflect.Func, reflect.Chan, reflect.UnsafePointer:
			sb.WriteString("<" + v.Kind().String() + ">")
		default:
			sb.WriteString("<?>")
		}
	}
	walk(reflect.ValueOf(x), 0)
	return sb.String()
}

func (w *c19World) snapshotAll() string {
	var sb strings.Builder
	for _, v := range w.vs {
		sb.WriteString(snapshot(v.Raw()) + "\n")
	}
	for _, r := range w.rs {
		sb.WriteString(snapshot(r.Raw()) + "\n")
	}
	return sb.String()
}

func buildWorld(ecoName string, vtext, rtext []string) (*c19World, string) {
	w := &c19World{e: eco.ByName(ecoName), vtext: vtext, rtext: rtext}
	for sc, en := range eco.Schemes {
		if en == ecoName {
			w.scheme = sc
		}
	}
	for _, s := range vtext {
		v, err := w.e.NewVersion(s)
		if err != nil {
			return nil, "pool version rejected"
		}
		w.vs = append(w.vs, v)
	}
	for _, s := range rtext {
		r, err := w.e.NewRange(s)
		if err != nil {
			return nil, "pool range rejected"
		}
		w.rs = append(w.rs, r)
	}
	if w.scheme != "" {
		for i := 0; i+1 < len(vtext) && i < 6; i++ {
			if versBoundOK(vtext[i]) && versBoundOK(vtext[i+1]) {
				w.versRng = append(w.versRng, "vers:"+w.scheme+"/>="+vtext[i]+"|<"+vtext[i+1]+"|!="+vtext[(i+2)%len(vtext)])
			}
		}
	}
	return w, ""
}

// c19Run executes the purity oracle; shuffles are derived deterministically
// from the op list (rotation/stride), the goroutine schedule is the runtime's.
func c19Run(ecoName string, goroutines int, vtext, rtext, ops []string) (bool, string) {
	w, why := buildWorld(ecoName, vtext, rtext)
	if w == nil {
		return false, why
	}
	before := w.snapshotAll()
	n := len(ops)
	seq := make([]string, n)
	for i, op := range ops {
		seq[i] = w.exec(op)
	}
	// (1) history independence: reversed order, strided order, twice over
	for pass, order := range [][2]int{{n - 1, -1}, {0, 1}} {
		idx := order[0]
		for c := 0; c < n; c++ {
			if got := w.exec(ops[idx]); got != seq[idx] {
				return true, fmt.Sprintf("operation %q returned %q in the first pass and %q in pass %d (results depend on call history)", ops[idx], seq[idx], got, pass+2)
			}
			idx += order[1]
		}
	}
	stride := 7
	for gcd(stride, n) != 1 {
		stride++
	}
	for c, idx := 0, 3%n; c < n; c, idx = c+1, (idx+stride)%n {
		if got := w.exec(ops[idx]); got != seq[idx] {
			return true, fmt.Sprintf("operation %q returned %q first and %q when executed in a different order", ops[idx], seq[idx], got)
		}
	}
	// (2) internal state: a change of the in-memory representation that no operation can observe (a correctly
	// synchronised memo, say) is allowed by the property, so it is only recorded; a change that an operation CAN
	// observe is caught by (1) and (3), an unsynchronised one by the race detector in (3).
	if after := w.snapshotAll(); after != before {
		internalStateChanged.Add(1)
	}
	// (3) concurrency on shared values. The goroutines work on a FRESH set of values parsed from the same texts, so that
	// whatever an operation does on first use (lazy initialisation, memoisation) happens under contention too.
	w2, why2 := buildWorld(ecoName, vtext, rtext)
	if w2 == nil {
		return true, "parsing the same pool a second time failed: " + why2
	}
	w = w2
	before = w.snapshotAll()
	results := make([][]string, goroutines)
	var wg sync.WaitGroup
	for g := 0; g < goroutines; g++ {
		g := g
		results[g] = make([]string, n)
		wg.Add(1)
		go func() {
			defer wg.Done()
			st := stride + 2*g
			for gcd(st, n) != 1 {
				st++
			}
			for c, idx := 0, (g*5)%n; c < n; c, idx = c+1, (idx+st)%n {
				results[g][idx] = w.exec(ops[idx])
			}
		}()
	}
	wg.Wait()
	for g := range results {
		for i := range ops {
			if results[g][i] != seq[i] {
				return true, fmt.Sprintf("operation %q returned %q sequentially but %q in goroutine %d", ops[i], seq[i], results[g][i], g)
			}
		}
	}
	if after := w.snapshotAll(); after != before {
		internalStateChanged.Add(1)
	}
	return false, ""
}

// internalStateChanged counts runs in which the reflection snapshot of the shared values differed afterwards.
var internalStateChanged atomic.Int64

func gcd(a, b int) int {
	for b != 0 {
		a, b = b, a%b
	}
	return a
}

//nolint:unused
func diffLine(a, b string) string {
	x, y := strings.Split(a, "\n"), strings.Split(b, "\n")
	for i := range x {
		if i < len(y) && x[i] != y[i] {
			return "before: " + truncate(x[i], 400) + "\nafter:  " + truncate(y[i], 400)
		}
	}
	return ""
}

func c19Decode(in []string) (g int, vtext, rtext, ops []string, ok bool) {
	if len(in) < 3 {
		return
	}
	g, _ = strconv.Atoi(in[0])
	nv, _ := strconv.Atoi(in[1])
	nr, _ := strconv.Atoi(in[2])
	if g < 1 || nv < 1 || len(in) < 3+nv+nr+1 {
		return
	}
	return g, in[3 : 3+nv], in[3+nv : 3+nv+nr], in[3+nv+nr:], true
}

func init() {
	registerCheck("C19", "purity", func(c known.Case) (bool, string) {
		g, vt, rt, ops, ok := c19Decode(c.Inputs)
		if !ok {
			return false, "bad case"
		}
		return c19Run(c.Eco, g, vt, rt, ops)
	})
}

func TestC19(t *testing.T) {
	r := newRunner(t, "C19")
	inflight := envFail + ".inflight"
	for _, e := range ecosFor(t) {
		e := e
		rapid.Check(t, func(rt *rapid.T) {
			nv := rapid.IntRange(4, 9).Draw(rt, "nv")
			vtext := gen.Pool(rt, e, nv, "v")
			nr := rapid.IntRange(2, 4).Draw(rt, "nr")
			var rtext []string
			for i := 0; i < nr; i++ {
				ri, ok := gen.DrawAnyRange(rt, e, vtext[rapid.IntRange(0, nv-1).Draw(rt, fmt.Sprintf("rb%d", i))], fmt.Sprintf("r%d", i))
				if ok {
					rtext = append(rtext, ri.Text)
				}
			}
			w, why := buildWorld(e.Name, vtext, rtext)
			if w == nil {
				r.ev.Count("world_not_built:"+why, 1)
				return
			}
			nops := rapid.IntRange(50, 400).Draw(rt, "nops")
			ops := make([]string, nops)
			kinds := []string{"nv", "cmp", "cmp", "cmp", "str"}
			if len(rtext) > 0 {
				kinds = append(kinds, "nr", "con", "con", "con", "rstr")
			}
			if len(w.versRng) > 0 {
				kinds = append(kinds, "vers", "vers")
			}
			kindSet := map[string]bool{}
			for i := range ops {
				l := fmt.Sprintf("o%d", i)
				k := gen.Pick(rt, l+"k", kinds...)
				kindSet[k] = true
				vi := func(s string) int { return rapid.IntRange(0, nv-1).Draw(rt, l+s) }
				ri := func() int { return rapid.IntRange(0, len(rtext)-1).Draw(rt, l+"r") }
				switch k {
				case "nv", "str":
					ops[i] = fmt.Sprintf("%s:%d", k, vi("i"))
				case "nr", "rstr":
					ops[i] = fmt.Sprintf("%s:%d", k, ri())
				case "cmp":
					ops[i] = fmt.Sprintf("cmp:%d:%d", vi("i"), vi("j"))
				case "con":
					ops[i] = fmt.Sprintf("con:%d:%d", ri(), vi("i"))
				case "vers":
					ops[i] = fmt.Sprintf("vers:%d:%d", rapid.IntRange(0, len(w.versRng)-1).Draw(rt, l+"vr"), vi("i"))
				}
			}
			g := rapid.IntRange(4, 16).Draw(rt, "goroutines")
			in := append([]string{strconv.Itoa(g), strconv.Itoa(nv), strconv.Itoa(len(rtext))}, vtext...)
			in = append(append(in, rtext...), ops...)
			kc := known.Case{Property: "C19", Check: "purity", Eco: e.Name, Inputs: in}
			if envFail != "" {
				_ = os.WriteFile(inflight, []byte(kc.String()), 0o644)
			}
			if r.check(rt, kc) && len(kindSet) >= 2 {
				r.ev.NonTrivial(fmt.Sprintf("%s/goroutines<=%d/kinds=%d", e.Name, bucket(g), len(kindSet)), func() any {
					return map[string]any{"versions": vtext, "ranges": rtext, "goroutines": g, "ops": len(ops), "first_ops": ops[:6]}
				}, kc.Key()...)
			}
		})
	}
	if envFail != "" {
		_ = os.Remove(inflight)
	}
	r.ev.Count("runs_with_unobservable_internal_state_change", internalStateChanged.Load())
}
