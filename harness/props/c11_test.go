package props

import (
	"fmt"
	"strings"
	"testing"

	"pgregory.net/rapid"

	"verifharness/eco"
	"verifharness/known"
	"verifharness/model"
)

// C11 — RPM versions order as rpmvercmp does.
// check "order": inputs [a, b]

func init() {
	registerCheck("C11", "order", func(c known.Case) (bool, string) {
		e := eco.ByName("rpm")
		a, b := c.Inputs[0], c.Inputs[1]
		if !model.RpmInDomain(a) || !model.RpmInDomain(b) {
			return false, "out of domain"
		}
		va, err1 := e.NewVersion(a)
		vb, err2 := e.NewVersion(b)
		if err1 != nil || err2 != nil {
			return false, "rejected by the rpm parser (the property quantifies over accepted strings)"
		}
		want := model.RpmCompare(a, b)
		if got := va.Compare(vb); sign(got) != want {
			return true, fmt.Sprintf("Compare(%q,%q)=%d, rpmvercmp order gives %d", a, b, got, want)
		}
		if got := vb.Compare(va); sign(got) != -want {
			return true, fmt.Sprintf("Compare(%q,%q)=%d, rpmvercmp order gives %d", b, a, got, -want)
		}
		return false, ""
	})
}

func TestC11(t *testing.T) {
	r := newRunner(t, "C11")
	e := eco.ByName("rpm")
	rapid.Check(t, func(rt *rapid.T) {
		a, b := pairFrom(rt, e)
		if !model.RpmInDomain(a) || !model.RpmInDomain(b) {
			r.ev.Count("out_of_domain", 1)
			return
		}
		kc := known.Case{Check: "order", Eco: "rpm", Inputs: []string{a, b}}
		if r.check(rt, kc) && sharesFirstNumber(a, b) {
			s := a + b
			cls := "other"
			switch {
			case len(firstLongRun(a)) > 19 || len(firstLongRun(b)) > 19:
				cls = "long-digit-run"
			case strings.Contains(s, "^"):
				cls = "caret"
			case strings.Contains(s, "~"):
				cls = "tilde"
			case strings.Contains(s, "-"):
				cls = "release"
			case strings.Contains(s, ":"):
				cls = "epoch"
			}
			r.ev.NonTrivial("rpm/"+cls, func() any { return kc.Inputs }, a, b)
		}
	})
}
