package props

import (
	"fmt"
	"os"
	"os/exec"
	"strings"
	"testing"

	"pgregory.net/rapid"

	"verifharness/eco"
	"verifharness/gen"
	"verifharness/known"
	"verifharness/model"
)

// C09 — PyPI versions order as PEP 440 specifies.  check "order": inputs [a, b]

func init() {
	registerCheck("C09", "order", func(c known.Case) (bool, string) {
		e := eco.ByName("pypi")
		a, b := c.Inputs[0], c.Inputs[1]
		want, ok := model.PepCompare(a, b)
		if !ok {
			return false, "not valid for the reference (out of domain)"
		}
		va, err1 := e.NewVersion(a)
		vb, err2 := e.NewVersion(b)
		if err1 != nil || err2 != nil {
			return false, "rejected by the pypi parser (the property quantifies over accepted strings)"
		}
		if got := va.Compare(vb); sign(got) != want {
			return true, fmt.Sprintf("Compare(%q,%q)=%d, PEP 440 order gives %d", a, b, got, want)
		}
		if got := vb.Compare(va); sign(got) != -want {
			return true, fmt.Sprintf("Compare(%q,%q)=%d, PEP 440 order gives %d", b, a, got, -want)
		}
		return false, ""
	})
}

func TestC09(t *testing.T) {
	r := newRunner(t, "C09")
	e := eco.ByName("pypi")
	var xs [][2]string
	limit := 2000
	if thorough() {
		limit = 60000
	}
	defer func() { crossCheckPackaging(r, xs) }()
	rapid.Check(t, func(rt *rapid.T) {
		a, b := pairFrom(rt, e)
		if known.Active("C09", "pypi.local_label") && gen.Chance(rt, "dropLocal", 9, 10) {
			// pairs with a local label fall into the recorded finding: keep them rare
			if k := strings.Index(a, "+"); k > 0 {
				a = a[:k]
			}
			if k := strings.Index(b, "+"); k > 0 {
				b = b[:k]
			}
		}
		if _, ok := model.PepCompare(a, b); !ok {
			r.ev.Count("out_of_domain", 1)
			return
		}
		if len(xs) < limit {
			xs = append(xs, [2]string{a, b})
		}
		kc := known.Case{Check: "order", Eco: "pypi", Inputs: []string{a, b}}
		if r.check(rt, kc) {
			ka, _ := model.PepParse(a)
			kb, _ := model.PepParse(b)
			if ka.Epoch == kb.Epoch && strings.Join(ka.Release, ".") == strings.Join(kb.Release, ".") && a != b {
				cls := "same-release"
				s := a + " " + b
				switch {
				case strings.Contains(s, "+"):
					cls += "/local"
				case strings.Contains(s, "dev"):
					cls += "/dev"
				case strings.Contains(s, "post") || strings.Contains(s, "rev") || strings.Contains(s, "r"):
					cls += "/post"
				default:
					cls += "/pre"
				}
				r.ev.NonTrivial("pypi/"+cls, func() any { return kc.Inputs }, a, b)
			}
		}
	})
}

// crossCheckPackaging validates the PEP 440 model against the 'packaging'
// library when python3-vt is available; disagreements are harness defects and
// are only counted and reported.
func crossCheckPackaging(r *runner, pairs [][2]string) {
	py, err := exec.LookPath("python3-vt")
	if err != nil {
		r.ev.Note("oracle_crosscheck", "python3-vt not installed: PEP 440 model not cross-checked in this run")
		return
	}
	f, err := os.CreateTemp("", "pep-pairs")
	if err != nil {
		return
	}
	defer os.Remove(f.Name())
	for _, p := range pairs {
		fmt.Fprintf(f, "%s %s\n", p[0], p[1])
	}
	f.Close()
	script := `
import sys
try:
    from packaging.version import Version, InvalidVersion
except Exception:
    print("NOPACKAGING"); sys.exit(0)
for ln in open(sys.argv[1]):
    a,b=ln.split()
    try:
        x,y=Version(a),Version(b)
        print(-1 if x<y else (1 if x>y else 0))
    except InvalidVersion:
        print("X")
`
	out, err := exec.Command(py, "-c", script, f.Name()).Output()
	if err != nil || strings.HasPrefix(string(out), "NOPACKAGING") {
		r.ev.Note("oracle_crosscheck", "packaging not importable: PEP 440 model not cross-checked in this run")
		return
	}
	lines := strings.Split(strings.TrimSpace(string(out)), "\n")
	n, bad := 0, 0
	for i, p := range pairs {
		if i >= len(lines) || lines[i] == "X" {
			r.ev.Count("oracle_crosscheck_reference_rejects", 1)
			continue
		}
		n++
		want := map[string]int{"-1": -1, "0": 0, "1": 1}[lines[i]]
		if got, _ := model.PepCompare(p[0], p[1]); got != want {
			bad++
			fmt.Fprintf(os.Stderr, "ORACLE-DISAGREEMENT: pep440 model %q %q model=%d packaging=%d\n", p[0], p[1], got, want)
		}
	}
	r.ev.Count("oracle_crosscheck_pairs", int64(n))
	r.ev.Count("oracle_disagreement", int64(bad))
	r.ev.Note("oracle_crosscheck", "reference model compared with packaging.version.Version on generated pairs")
}
