package props

import (
	"bytes"
	"fmt"
	"go/ast"
	"go/parser"
	"go/token"
	"os"
	"os/exec"
	"path/filepath"
	"sort"
	"strconv"
	"strings"
	"sync/atomic"
	"testing"
	"time"

	"github.com/alowayed/go-univers/pkg/spec/vers"
	"pgregory.net/rapid"

	"verifharness/eco"
	"verifharness/gen"
	"verifharness/known"
	"verifharness/model"
)

// C06 — every entry point is total: no panic, no hang, value xor error.
//
// checks (inputs are raw strings; ecosystem in Eco):
//   version: [s]          range: [s]        vers: [range, version]
//   cli: args...          growth: [entry, family]

// fixed partner pools: a parsed value is also compared / range-tested against these.
var c06Partners = []string{"1.0.0", "1.2.3-alpha.1", "2.0", "1:1.0-1", "v1.0.0", "1.0", "0", "1.0.0+build", "2024.01.15", "1.0a1", "1.0~rc1", "1.0_p1-r1", "dev-main", "1.0.0-SNAPSHOT"}

func partnersFor(e eco.Eco) []eco.Ver {
	var out []eco.Ver
	for _, s := range c06Partners {
		if v, err := e.NewVersion(s); err == nil {
			out = append(out, v)
		}
	}
	return out
}

var partnerCache = map[string][]eco.Ver{}

func partners(e eco.Eco) []eco.Ver {
	if p, ok := partnerCache[e.Name]; ok {
		return p
	}
	p := partnersFor(e)
	partnerCache[e.Name] = p
	return p
}

// guard runs f and converts a panic into a description.
func guard(f func() string) (msg string) {
	defer func() {
		if r := recover(); r != nil {
			msg = fmt.Sprintf("panic: %v", r)
		}
	}()
	return f()
}

func c06Version(e eco.Eco, s string) (accepted bool, bad string) {
	bad = guard(func() string {
		v, isNil, err := e.RawNewVersion(s)
		if err == nil && isNil {
			return "NewVersion returned (nil, nil)"
		}
		if err != nil && !isNil {
			return "NewVersion returned a value together with an error"
		}
		if err != nil {
			return ""
		}
		accepted = true
		_ = v.String()
		if c := v.Compare(v); c < -1 || c > 1 {
			return fmt.Sprintf("Compare(self)=%d outside {-1,0,1}", c)
		}
		for _, p := range partners(e) {
			if c := v.Compare(p); c < -1 || c > 1 {
				return fmt.Sprintf("Compare with %q = %d outside {-1,0,1}", p.String(), c)
			}
			if c := p.Compare(v); c < -1 || c > 1 {
				return fmt.Sprintf("Compare from %q = %d outside {-1,0,1}", p.String(), c)
			}
		}
		return ""
	})
	return
}

func c06Range(e eco.Eco, s string) (accepted bool, bad string) {
	bad = guard(func() string {
		r, isNil, err := e.RawNewRange(s)
		if err == nil && isNil {
			return "NewVersionRange returned (nil, nil)"
		}
		if err != nil && !isNil {
			return "NewVersionRange returned a value together with an error"
		}
		if err != nil {
			return ""
		}
		accepted = true
		_ = r.String()
		for _, p := range partners(e) {
			_ = r.Contains(p)
		}
		return ""
	})
	return
}

// c06ComparePair parses two (typically long and nearly identical) strings and,
// if both are accepted, compares them in both directions and range-tests one
// against a range bounded by the other.
func c06ComparePair(e eco.Eco, a, b string) (both bool, bad string) {
	bad = guard(func() string {
		va, _, err1 := e.RawNewVersion(a)
		vb, _, err2 := e.RawNewVersion(b)
		if err1 != nil || err2 != nil {
			return ""
		}
		both = true
		if c := va.Compare(vb); c < -1 || c > 1 {
			return fmt.Sprintf("Compare=%d outside {-1,0,1}", c)
		}
		if c := vb.Compare(va); c < -1 || c > 1 {
			return fmt.Sprintf("Compare=%d outside {-1,0,1}", c)
		}
		return ""
	})
	return
}

func c06Vers(rng, ver string) (accepted bool, bad string) {
	bad = guard(func() string {
		got, err := vers.Contains(rng, ver)
		if err != nil && got {
			return "vers.Contains returned true together with an error"
		}
		accepted = err == nil
		return ""
	})
	return
}

func cliPath() string { return os.Getenv("VERIF_CLI") }

// runCLI executes the built binary; ok=false if it could not be started.
func runCLI(args []string) (stdout, stderr string, exit int, err error) {
	cmd := exec.Command(cliPath(), args...)
	var so, se bytes.Buffer
	cmd.Stdout, cmd.Stderr = &so, &se
	done := make(chan error, 1)
	if err := cmd.Start(); err != nil {
		return "", "", -1, err
	}
	go func() { done <- cmd.Wait() }()
	// the child may use 30 s of CPU time (or sit blocked for 300 s of wall-clock time) before it is killed as hanging
	start := time.Now()
	tick := time.NewTicker(250 * time.Millisecond)
	defer tick.Stop()
	for {
		select {
		case werr := <-done:
			exit = 0
			if werr != nil {
				if ee, ok := werr.(*exec.ExitError); ok {
					exit = ee.ExitCode()
				} else {
					return "", "", -1, werr
				}
			}
			return so.String(), se.String(), exit, nil
		case <-tick.C:
			cpu, ok := childCPU(cmd.Process.Pid)
			if (ok && cpu > 30*time.Second) || time.Since(start) > 300*time.Second {
				_ = cmd.Process.Kill()
				<-done
				return so.String(), se.String(), -2, nil
			}
		}
	}
}

func c06CLI(args []string) string {
	so, se, exit, err := runCLI(args)
	if err != nil {
		return "" // cannot start (e.g. argument with NUL): not a verdict
	}
	if exit == -2 {
		return "the CLI did not terminate (30 s of CPU time used, or blocked for 300 s)"
	}
	if exit != 0 && exit != 1 {
		return fmt.Sprintf("exit status %d (stderr %q)", exit, truncate(se, 300))
	}
	// a diagnostic may go to either stream; a successful run prints its result on stdout only
	if exit == 0 && se != "" {
		return fmt.Sprintf("exit 0 but wrote to stderr: %q", truncate(se, 300))
	}
	if exit == 0 && (so == "" || !strings.HasSuffix(so, "\n")) {
		return fmt.Sprintf("stdout is not a terminated line: %q", truncate(so, 200))
	}
	if exit == 1 && strings.TrimSpace(so+se) == "" {
		return "exit 1 without a diagnostic"
	}
	return ""
}

func truncate(s string, n int) string {
	if len(s) > n {
		return s[:n] + "..."
	}
	return s
}

// withDeadline runs f and reports a violation if it does not return within 20 s of CPU time of this process (or
// 200 s of wall-clock time, for a call that is blocked); inputs of replayed cases are at most a few kB long.
func withDeadline(f func() string) (bool, string) {
	done := make(chan string, 1)
	go func() { done <- f() }()
	start, cpu0 := time.Now(), cpuNow()
	tick := time.NewTicker(250 * time.Millisecond)
	defer tick.Stop()
	for {
		select {
		case bad := <-done:
			return bad != "", bad
		case <-tick.C:
			if cpuNow()-cpu0 > 20*time.Second {
				return true, "the call did not return within 20 s of CPU time"
			}
			if time.Since(start) > 200*time.Second {
				return true, "the call did not return within 200 s"
			}
		}
	}
}

func init() {
	registerCheck("C06", "version", func(c known.Case) (bool, string) {
		return withDeadline(func() string { _, bad := c06Version(eco.ByName(c.Eco), c.Inputs[0]); return bad })
	})
	registerCheck("C06", "range", func(c known.Case) (bool, string) {
		return withDeadline(func() string { _, bad := c06Range(eco.ByName(c.Eco), c.Inputs[0]); return bad })
	})
	registerCheck("C06", "comparepair", func(c known.Case) (bool, string) {
		return withDeadline(func() string { _, bad := c06ComparePair(eco.ByName(c.Eco), c.Inputs[0], c.Inputs[1]); return bad })
	})
	registerCheck("C06", "vers", func(c known.Case) (bool, string) {
		return withDeadline(func() string { _, bad := c06Vers(c.Inputs[0], c.Inputs[1]); return bad })
	})
	registerCheck("C06", "cli", func(c known.Case) (bool, string) {
		if cliPath() == "" {
			return false, "no CLI binary"
		}
		bad := c06CLI(c.Inputs)
		return bad != "", bad
	})
	registerCheck("C06", "growth", func(c known.Case) (bool, string) {
		bad := growthCheck(c.Inputs[0], c.Inputs[1], nil)
		return bad != "", bad
	})
}

// ---------------------------------------------------------------- inputs

// syntax alphabet of the exhaustive enumeration (26 symbols)
var c06Alphabet = []string{"0", "1", "a", ".", "-", "_", "~", "+", "^", "*", "x", ":", "v", "=", "<", ">", "!", ",", "|", "[", "]", "(", ")", " ", "@", "\x00"}
var c06SubAlphabet = []string{"1", "a", ".", "-", "~", "*", "=", "<", ",", "|", "[", " "}

func enumerate(alpha []string, maxLen int, f func(string)) int {
	n := 0
	var rec func(prefix string, depth int)
	rec = func(prefix string, depth int) {
		if depth > 0 {
			f(prefix)
			n++
		}
		if depth == maxLen {
			return
		}
		for _, a := range alpha {
			rec(prefix+a, depth+1)
		}
	}
	rec("", 0)
	return n
}

// harvest collects the string literals of the repository's own tests.
func harvest() []string {
	seen := map[string]bool{}
	var out []string
	files, _ := filepath.Glob(repoRoot() + "/pkg/*/*/*_test.go")
	more, _ := filepath.Glob(repoRoot() + "/pkg/*/*_test.go")
	cmdf, _ := filepath.Glob(repoRoot() + "/cmd/*_test.go")
	files = append(append(files, more...), cmdf...)
	sort.Strings(files)
	for _, file := range files {
		fset := token.NewFileSet()
		f, err := parser.ParseFile(fset, file, nil, 0)
		if err != nil {
			continue
		}
		ast.Inspect(f, func(n ast.Node) bool {
			if bl, ok := n.(*ast.BasicLit); ok && bl.Kind == token.STRING {
				if s, err := strconv.Unquote(bl.Value); err == nil && len(s) < 120 && !seen[s] {
					seen[s] = true
					out = append(out, s)
				}
			}
			return true
		})
	}
	if len(out) == 0 {
		out = []string{"1.2.3", ">=1.0.0 <2.0.0", "vers:npm/>=1.2.0|<=2.0.0", "^1.2.3", "[1.0,2.0)"}
	}
	return out
}

var harvested = harvest()

// hostile draws a hostile string: a mutated harvested literal, a template with
// holes, or raw bytes.
func hostile(rt *rapid.T, l string) string {
	switch rapid.IntRange(0, 9).Draw(rt, l+"k") {
	case 0, 1, 2, 3, 4:
		s := harvested[rapid.IntRange(0, len(harvested)-1).Draw(rt, l+"h")]
		n := rapid.IntRange(1, 3).Draw(rt, l+"n")
		for i := 0; i < n; i++ {
			s = gen.Corrupt(rt, s, fmt.Sprintf("%sc%d", l, i))
		}
		return s
	case 5, 6:
		tpl := gen.Pick(rt, l+"t", "□.□.□", "□□1.2.3", "[□,□]", "vers:□/□□□|□", "□1.0□ □ □2.0", "□ - □", "□||□", "1.□.□-□+□", "□:□-□", "^□.□", "~>□", "==□.*", "v□.0.0-□-□", "□!□")
		var sb strings.Builder
		i := 0
		for _, r := range tpl {
			if r == '□' {
				sb.WriteString(gen.Pick(rt, fmt.Sprintf("%sf%d", l, i), "0", "1", "a", ".", "-", "_", "~", "+", "^", "*", "x", ":", "v", "=", "<", ">", "!", ",", "|", "[", "]", "(", ")", " ", "@", "", ">=", "99999999999999999999", "npm", "deb", "rc1", "\xff", "é"))
				i++
			} else {
				sb.WriteRune(r)
			}
		}
		return sb.String()
	case 7:
		return string(rapid.SliceOfN(rapid.Byte(), 0, 24).Draw(rt, l+"b"))
	case 8:
		return rapid.StringN(0, 12, -1).Draw(rt, l+"u")
	default:
		return gen.Version(rt, eco.Names[rapid.IntRange(0, len(eco.Names)-1).Draw(rt, l+"e")], l+"v")
	}
}

// ---------------------------------------------------------------- watchdog

var currentInput atomic.Value // string description of the call in progress
var progress atomic.Int64

func startWatchdog(t *testing.T, r *runner, limit time.Duration) func() {
	stop := make(chan struct{})
	go func() {
		last := int64(-1)
		lastChange, lastCPU := time.Now(), cpuNow()
		for {
			select {
			case <-stop:
				return
			case <-time.After(500 * time.Millisecond):
			}
			p := progress.Load()
			if p != last {
				last, lastChange, lastCPU = p, time.Now(), cpuNow()
				continue
			}
			// the limit is CPU time consumed by this process since the call started (a busy machine must not
			// turn into an alarm); ten times the limit of wall-clock time catches a call that is blocked
			if cpuNow()-lastCPU > limit || time.Since(lastChange) > 10*limit {
				desc, _ := currentInput.Load().(string)
				c := known.Case{Property: "C06", Check: "hang", Eco: envEco, Inputs: []string{desc}, Detail: fmt.Sprintf("a single call did not return within %s of CPU time (or %s of wall-clock time)", limit, 10*limit)}
				if kc, ok := currentCase.Load().(*known.Case); ok && kc != nil {
					c = *kc
					c.Detail = fmt.Sprintf("the call did not return within %s of CPU time (%s)", limit, desc)
				}
				if envFail != "" {
					_ = os.WriteFile(envFail, []byte(c.String()), 0o644)
				}
				fmt.Printf("VIOLATION-CASE %s\n", c.String())
				os.Exit(1)
			}
		}
	}()
	return func() { close(stop) }
}

func step(desc string) {
	currentInput.Store(desc)
	currentCase.Store((*known.Case)(nil))
	progress.Add(1)
}

// stepCase is step with a replayable case attached (reported if the call hangs).
func stepCase(desc string, kc known.Case) {
	currentInput.Store(desc)
	currentCase.Store(&kc)
	progress.Add(1)
}

var currentCase atomic.Value

// ---------------------------------------------------------------- growth

type family struct {
	name string
	mk   func(n int) string
}

var families = []family{
	{"digits", func(n int) string { return strings.Repeat("9", n) }},
	{"dotted", func(n int) string { return strings.Repeat("1.", n) + "1" }},
	{"dash-a", func(n int) string { return "1" + strings.Repeat("-a", n) }},
	{"alnum", func(n int) string { return strings.Repeat("1a", n) }},
	{"tilde", func(n int) string { return "1" + strings.Repeat("~", n) }},
	{"spaces", func(n int) string { return strings.Repeat(" ", n) + "1.0" }},
	{"brackets", func(n int) string { return strings.Repeat("[", n) + "1.0" + strings.Repeat("]", n) }},
	{"ops", func(n int) string { return strings.Repeat(">=", n) + "1.0" }},
	{"or", func(n int) string { return strings.Repeat("1.0 || ", n) + "1.0" }},
	{"and", func(n int) string { return strings.Repeat(">=1.0 ", n) + "<2.0" }},
	{"comma", func(n int) string { return strings.Repeat(">=1.0,", n) + "<2.0" }},
	{"pre", func(n int) string { return "1.0.0-" + strings.Repeat("a.", n) + "a" }},
	{"vers-bars", func(n int) string { return "vers:npm/" + strings.Repeat(">=1.0.0|", n) + "<2.0.0" }},
	{"vers-distinct", func(n int) string {
		var sb strings.Builder
		sb.WriteString("vers:npm/")
		for i := 0; i < n/8; i++ {
			fmt.Fprintf(&sb, ">=%d.0.0|", i)
		}
		sb.WriteString("<99999999.0.0")
		return sb.String()
	}},
}

func callEntry(entry, s string) {
	switch {
	case strings.HasPrefix(entry, "version/"):
		c06Version(eco.ByName(entry[len("version/"):]), s)
	case strings.HasPrefix(entry, "range/"):
		c06Range(eco.ByName(entry[len("range/"):]), s)
	case strings.HasPrefix(entry, "compare/"):
		c06ComparePair(eco.ByName(entry[len("compare/"):]), s, s+"2")
		c06ComparePair(eco.ByName(entry[len("compare/"):]), s, s+"b")
	case entry == "vers":
		c06Vers(s, "1.5.0")
	case entry == "vers-version":
		c06Vers("vers:npm/>=1.0.0", s)
	}
}

// growthCheck measures the entry point on inputs of size n, 2n, 4n, 8n (three
// runs each, minimum taken). Only a growth ratio above 6 on two consecutive
// doublings together with more than 2 s absolute is a violation; everything
// else slower than expected is reported through note as inconclusive.
func growthCheck(entry, fam string, note func(string)) string {
	var f *family
	for i := range families {
		if families[i].name == fam {
			f = &families[i]
		}
	}
	if f == nil {
		return ""
	}
	const n0 = 12500
	var ts [4]time.Duration
	for k := 0; k < 4; k++ {
		s := f.mk(n0 << k)
		best := time.Duration(1 << 62)
		for rep := 0; rep < 3; rep++ {
			step(fmt.Sprintf("%s on family %s with n=%d", entry, fam, n0<<k))
			t0 := cpuNow()
			callEntry(entry, s)
			if d := cpuNow() - t0; d < best {
				best = d
			}
			if best > 5*time.Second {
				break
			}
		}
		ts[k] = best
	}
	ratio := func(a, b time.Duration) float64 {
		if a < time.Millisecond {
			a = time.Millisecond
		}
		return float64(b) / float64(a)
	}
	r1, r2, r3 := ratio(ts[0], ts[1]), ratio(ts[1], ts[2]), ratio(ts[2], ts[3])
	if ts[3] > 2*time.Second && ((r1 > 6 && r2 > 6) || (r2 > 6 && r3 > 6)) {
		return fmt.Sprintf("%s on %s: times %v for n=%d..%d grow by %.1f, %.1f, %.1f per doubling (more than quadratic)", entry, fam, ts, n0, n0<<3, r1, r2, r3)
	}
	if ts[3] > time.Second && note != nil {
		note(fmt.Sprintf("%s on %s: %v (ratios %.1f %.1f %.1f) - slow but not reported", entry, fam, ts, r1, r2, r3))
	}
	return ""
}

// ---------------------------------------------------------------- the test

func TestC06(t *testing.T) {
	r := newRunner(t, "C06")
	stop := startWatchdog(t, r, 20*time.Second)
	defer stop()
	unit := envEco
	switch unit {
	case "vers":
		c06VersUnit(t, r)
	case "cli":
		c06CLIUnit(t, r)
	case "long0", "long1", "long2", "long3":
		c06LongUnit(t, r, int(unit[4]-'0'))
	default:
		c06EcoUnit(t, r, eco.ByName(unit))
	}
}

func failPlain(t *testing.T, r *runner, c known.Case) {
	r.last = &c
	t.Fatalf("VIOLATION-CASE %s", c.String())
}

func c06EcoUnit(t *testing.T, r *runner, e eco.Eco) {
	// (a) exhaustive enumeration
	maxLen := 3
	if thorough() {
		maxLen = 4
	}
	acceptedV, acceptedR := 0, 0
	one := func(s string) {
		step("NewVersion(" + strconv.Quote(s) + ") of " + e.Name)
		r.ev.EvalN(2)
		okv, bad := c06Version(e, s)
		if bad != "" {
			failPlain(t, r, known.Case{Property: "C06", Check: "version", Eco: e.Name, Inputs: []string{s}, Detail: bad})
		}
		step("NewVersionRange(" + strconv.Quote(s) + ") of " + e.Name)
		okr, bad := c06Range(e, s)
		if bad != "" {
			failPlain(t, r, known.Case{Property: "C06", Check: "range", Eco: e.Name, Inputs: []string{s}, Detail: bad})
		}
		if okv {
			acceptedV++
			r.ev.NonTrivial(e.Name+"/enumerated-accepted-version", func() any { return s }, e.Name, "v", s)
		}
		if okr {
			acceptedR++
			r.ev.NonTrivial(e.Name+"/enumerated-accepted-range", func() any { return s }, e.Name, "r", s)
		}
	}
	n := enumerate(c06Alphabet, maxLen, one)
	if thorough() {
		n += enumerate(c06SubAlphabet, 5, one)
	}
	r.ev.Count("enumerated_strings", int64(n))
	r.ev.Note("enumeration", fmt.Sprintf("all strings of length 1..%d over the %d-symbol syntax alphabet were tried on NewVersion and NewVersionRange", maxLen, len(c06Alphabet)))
	// (a') nearly identical pairs with a long shared prefix (20..200 repetitions of a unit): Compare must stay cheap
	deep := 0
	for _, unit := range []string{"1-", "1.", "a1", "1a", "-1", ".1", "1-a", "1~", "1_", "a.", "1+", "rc1-", "1.0-"} {
		for _, k := range []int{20, 33, 47, 64, 100, 200} {
			for _, head := range []string{"", "1", "1.0"} {
				base := head + strings.Repeat(unit, k)
				for _, tail := range [][2]string{{"1", "2"}, {"a", "b"}, {"", "1"}, {"1", "1a"}} {
					stepCase("Compare of two "+e.Name+" versions sharing the prefix "+strconv.Quote(head)+"+"+strconv.Itoa(k)+"x"+strconv.Quote(unit),
						known.Case{Property: "C06", Check: "comparepair", Eco: e.Name, Inputs: []string{base + tail[0], base + tail[1]}})
					r.ev.Eval()
					both, bad := c06ComparePair(e, base+tail[0], base+tail[1])
					if bad != "" {
						failPlain(t, r, known.Case{Property: "C06", Check: "comparepair", Eco: e.Name, Inputs: []string{base + tail[0], base + tail[1]}, Detail: bad})
					}
					if both {
						deep++
						r.ev.NonTrivial(e.Name+"/deep-pair-compared", func() any { return []string{truncate(base+tail[0], 60), "vs same prefix + " + tail[1]} }, e.Name, "deep", base, tail[0], tail[1])
					}
				}
			}
		}
	}
	r.ev.Count("deep_pairs_compared", int64(deep))
	// (b),(c) hostile strings through rapid
	rapid.Check(t, func(rt *rapid.T) {
		s := hostile(rt, "s")
		if gen.Chance(rt, "which", 1, 2) {
			kc := known.Case{Property: "C06", Check: "version", Eco: e.Name, Inputs: []string{s}}
			stepCase("NewVersion("+strconv.Quote(truncate(s, 200))+") of "+e.Name, kc)
			if r.check(rt, kc) {
				if ok, _ := c06Version(e, s); ok {
					r.ev.NonTrivial(e.Name+"/hostile-accepted-version", func() any { return s }, e.Name, "v", s)
				}
			}
		} else {
			kc := known.Case{Property: "C06", Check: "range", Eco: e.Name, Inputs: []string{s}}
			stepCase("NewVersionRange("+strconv.Quote(truncate(s, 200))+") of "+e.Name, kc)
			if r.check(rt, kc) {
				if ok, _ := c06Range(e, s); ok {
					r.ev.NonTrivial(e.Name+"/hostile-accepted-range", func() any { return s }, e.Name, "r", s)
				}
			}
		}
	})
}

func c06VersUnit(t *testing.T, r *runner) {
	maxLen := 3
	if thorough() {
		maxLen = 4
	}
	n := 0
	for _, scheme := range append(append([]string{}, eco.SchemeNames...), "", "nope") {
		n += enumerate(c06SubAlphabet, maxLen, func(s string) {
			step("vers.Contains(" + strconv.Quote("vers:"+scheme+"/"+s) + ", \"1.0.0\")")
			r.ev.EvalN(2)
			ok, bad := c06Vers("vers:"+scheme+"/"+s, "1.0.0")
			if bad != "" {
				failPlain(t, r, known.Case{Property: "C06", Check: "vers", Eco: "vers", Inputs: []string{"vers:" + scheme + "/" + s, "1.0.0"}, Detail: bad})
			}
			if ok {
				r.ev.NonTrivial("vers/enumerated-accepted", func() any { return "vers:" + scheme + "/" + s }, "vers", scheme, s)
			}
			_, bad = c06Vers("vers:"+scheme+"/>=1.0.0", s)
			if bad != "" {
				failPlain(t, r, known.Case{Property: "C06", Check: "vers", Eco: "vers", Inputs: []string{"vers:" + scheme + "/>=1.0.0", s}, Detail: bad})
			}
		})
	}
	r.ev.Count("enumerated_strings", int64(n))
	rapid.Check(t, func(rt *rapid.T) {
		var rng, ver string
		switch rapid.IntRange(0, 3).Draw(rt, "mode") {
		case 0:
			rng, ver = hostile(rt, "r"), hostile(rt, "v")
		case 1:
			rng = "vers:" + gen.Pick(rt, "sc", eco.SchemeNames...) + "/" + hostile(rt, "r")
			ver = gen.Pick(rt, "vv", "1.0.0", "1.0", "1.0.0-alpha", "v1.0.0", "1:1.0-1")
		case 2:
			sc := gen.Pick(rt, "sc", eco.SchemeNames...)
			rng = "vers:" + sc + "/" + gen.Pick(rt, "op", allVersOps...) + gen.Version(rt, eco.Schemes[sc], "bv")
			ver = hostile(rt, "v")
		default:
			sc := gen.Pick(rt, "sc", eco.SchemeNames...)
			cs, probes, ok := versCase(rt, r, sc)
			if !ok {
				return
			}
			rng = gen.Corrupt(rt, "vers:"+sc+"/"+joinVC(cs), "cr")
			ver = probes[0]
		}
		step("vers.Contains(" + strconv.Quote(truncate(rng, 200)) + ", " + strconv.Quote(truncate(ver, 100)) + ")")
		kc := known.Case{Check: "vers", Eco: "vers", Inputs: []string{rng, ver}}
		if r.check(rt, kc) {
			if ok, _ := c06Vers(rng, ver); ok {
				r.ev.NonTrivial("vers/hostile-accepted", func() any { return kc.Inputs }, "vers", rng, ver)
			}
		}
	})
}

func joinVC(cs []model.VC) string {
	parts := make([]string, len(cs))
	for i, c := range cs {
		parts[i] = c.Op + c.V
	}
	return strings.Join(parts, "|")
}

func c06CLIUnit(t *testing.T, r *runner) {
	if cliPath() == "" {
		t.Fatalf("HARNESS-ERROR: VERIF_CLI not set")
	}
	names := append(append([]string{}, eco.Names...), "vers", "nope", "", "NPM", "xyzzy", "-x")
	cmds := []string{"compare", "sort", "contains", "nope", "", "Compare", "--", "-v"}
	// 100k-character arguments (the operating system allows up to 128 kB per argument)
	for _, name := range append(append([]string{}, eco.Names...), "vers") {
		for _, long := range []string{strings.Repeat("9", 100000), "1" + strings.Repeat(".1", 50000), "1" + strings.Repeat("-a", 50000), strings.Repeat(">=", 50000) + "1"} {
			for _, args := range [][]string{{name, "compare", long, "1.0.0"}, {name, "contains", ">=" + long[:60000], "1.0.0"}, {name, "sort", "1.0.0", long}, {name, "contains", "vers:npm/>=" + long[:60000], "1.0.0"}} {
				step("CLI " + name + " " + args[1] + " with a " + strconv.Itoa(len(long)) + "-character argument")
				r.ev.Eval()
				if bad := c06CLI(args); bad != "" {
					failPlain(t, r, known.Case{Property: "C06", Check: "cli", Eco: "cli", Inputs: args, Detail: bad})
				}
				r.ev.NonTrivial("cli/long-argument", func() any { return []string{name, args[1], "100k-character argument"} }, "cli-long", name, args[1], strconv.Itoa(len(args[2])), strconv.Itoa(len(args[len(args)-1])), long[:4])
			}
		}
	}
	// arguments made of k multi-byte characters, k = 1..300: byte length and character count drift apart, which is where
	// truncation and column arithmetic on diagnostics goes wrong
	for _, ch := range []string{"é", "€", "😀", "\xff"} {
		stepK := 1
		if !thorough() && ch != "é" {
			stepK = 3
		}
		for k := 1; k <= 300; k += stepK {
			arg := strings.Repeat(ch, k)
			for _, args := range [][]string{{"npm", "compare", arg, "1.0.0"}, {"vers", "contains", "vers:npm/>=" + arg, "1.0.0"}, {"debian", "sort", "1.0", arg}} {
				step("CLI " + args[0] + " " + args[1] + " with an argument of " + strconv.Itoa(k) + " multi-byte characters")
				r.ev.Eval()
				if bad := c06CLI(args); bad != "" {
					failPlain(t, r, known.Case{Property: "C06", Check: "cli", Eco: "cli", Inputs: args, Detail: bad})
				}
			}
		}
		r.ev.NonTrivial("cli/multibyte-argument-length-sweep", func() any { return []string{ch, "k=1..300"} }, "cli-mb", ch)
	}
	rapid.Check(t, func(rt *rapid.T) {
		n := rapid.IntRange(0, 5).Draw(rt, "argc")
		var args []string
		validEco := ""
		for i := 0; i < n; i++ {
			l := fmt.Sprintf("a%d", i)
			var a string
			switch {
			case i == 0 && gen.Chance(rt, l+"name", 4, 5):
				a = gen.Pick(rt, l, names...)
				for _, en := range eco.Names {
					if en == a {
						validEco = a
					}
				}
			case i == 1 && gen.Chance(rt, l+"cmd", 4, 5):
				a = gen.Pick(rt, l, cmds...)
			case validEco != "" && gen.Chance(rt, l+"valid", 1, 2):
				a = gen.Version(rt, validEco, l+"v")
			case gen.Chance(rt, l+"mb", 1, 12):
				a = strings.Repeat(gen.Pick(rt, l+"mbc", "é", "€", "😀", "ß1", "٣"), rapid.IntRange(1, 400).Draw(rt, l+"mbn"))
			default:
				a = hostile(rt, l)
			}
			a = strings.ReplaceAll(a, "\x00", "")
			args = append(args, a)
		}
		step("CLI " + strconv.Quote(strings.Join(args, " ")))
		kc := known.Case{Property: "C06", Check: "cli", Eco: "cli", Inputs: args}
		r.ev.Eval()
		so, se, exit, err := runCLI(args)
		if err != nil {
			r.ev.Count("cli_not_started", 1)
			return
		}
		bad := ""
		switch {
		case exit == -2:
			bad = "the CLI did not terminate (30 s of CPU time used, or blocked for 300 s)"
		case exit != 0 && exit != 1:
			bad = fmt.Sprintf("exit status %d (stderr %q)", exit, truncate(se, 300))
		case exit == 0 && se != "":
			bad = fmt.Sprintf("exit 0 but wrote to stderr: %q", truncate(se, 300))
		case exit == 0 && (so == "" || !strings.HasSuffix(so, "\n")):
			bad = fmt.Sprintf("stdout is not a terminated line: %q", truncate(so, 200))
		case exit == 1 && strings.TrimSpace(so+se) == "":
			bad = "exit 1 without a diagnostic"
		}
		if bad != "" {
			kc.Detail = bad
			r.violation(rt, kc)
		}
		if exit == 0 {
			r.ev.NonTrivial("cli/successful-invocation", func() any { return args }, append([]string{"cli"}, args...)...)
		} else {
			r.ev.NonTrivial("cli/diagnostic", func() any { return args }, append([]string{"cli"}, args...)...)
		}
	})
}

func c06LongUnit(t *testing.T, r *runner, part int) {
	var all []string
	for _, n := range eco.Names {
		all = append(all, "version/"+n, "range/"+n, "compare/"+n)
	}
	all = append(all, "vers", "vers-version")
	var entries []string
	for i, en := range all {
		if i%4 == part {
			entries = append(entries, en)
		}
	}
	var notes []string
	for _, en := range entries {
		for _, f := range families {
			r.ev.Eval()
			bad := growthCheck(en, f.name, func(s string) { notes = append(notes, s) })
			if bad != "" {
				failPlain(t, r, known.Case{Property: "C06", Check: "growth", Eco: "long", Inputs: []string{en, f.name}, Detail: bad})
			}
			r.ev.NonTrivial("long/"+f.name, func() any { return []string{en, f.name, "n=12500..100000"} }, en, f.name)
		}
	}
	if len(notes) > 0 {
		r.ev.Note("slow_but_not_violations", notes)
	}
	// also 100k-character inputs through the CLI argument vector are covered by the unit "cli" only up to the OS limit
}
