package props

import (
	"fmt"
	"os"
	"os/exec"
	"regexp"
	"strings"
	"testing"

	"pgregory.net/rapid"

	"verifharness/eco"
	"verifharness/gen"
	"verifharness/known"
	"verifharness/model"
)

// C12 — Maven versions order as ComparableVersion does.  check "order": inputs [a, b]

func init() {
	registerCheck("C12", "order", func(c known.Case) (bool, string) {
		e := eco.ByName("maven")
		a, b := c.Inputs[0], c.Inputs[1]
		if !model.MavenConventional(a) || !model.MavenConventional(b) {
			return false, "not a conventionally shaped pair (out of domain)"
		}
		va, err1 := e.NewVersion(a)
		vb, err2 := e.NewVersion(b)
		if err1 != nil || err2 != nil {
			return true, fmt.Sprintf("a conventionally shaped Maven version was rejected: %v %v", err1, err2)
		}
		want := model.MavenCompare(a, b)
		if got := va.Compare(vb); sign(got) != want {
			return true, fmt.Sprintf("Compare(%q,%q)=%d, ComparableVersion gives %d", a, b, got, want)
		}
		if got := vb.Compare(va); sign(got) != -want {
			return true, fmt.Sprintf("Compare(%q,%q)=%d, ComparableVersion gives %d", b, a, got, -want)
		}
		return false, ""
	})
}

var mavenLetters = "abcdefghijklmnopqrstuvwxyzABCDEFGHIJKLMNOPQRSTUVWXYZ"

// mavenPair: two conventional versions that mostly share the numeric head.
func mavenPair(rt *rapid.T) (string, string) {
	a := gen.MavenConventional(rt, "a")
	b := gen.MavenConventional(rt, "b")
	if gen.Chance(rt, "samehead", 2, 3) {
		head := a
		if k := strings.IndexAny(a, mavenLetters+"-"); k > 0 {
			head = strings.TrimRight(a[:k], ".-")
		}
		tail := ""
		if k := strings.IndexAny(b, mavenLetters+"-"); k > 0 {
			tail = b[k:]
			if b[k-1] == '.' && b[k] != '-' {
				tail = "." + tail
			} else if b[k] != '-' {
				tail = "-" + tail
			}
		}
		if gen.Chance(rt, "zeros", 1, 4) {
			head += gen.Pick(rt, "z", ".0", ".0.0")
		}
		b = head + tail
	}
	if gen.Chance(rt, "swap", 1, 2) {
		a, b = b, a
	}
	return a, b
}

func TestC12(t *testing.T) {
	r := newRunner(t, "C12")
	var xs [][2]string
	limit := 1500
	if thorough() {
		limit = 40000
	}
	defer func() { crossCheckMaven(r, xs) }()
	rapid.Check(t, func(rt *rapid.T) {
		a, b := mavenPair(rt)
		if !model.MavenConventional(a) || !model.MavenConventional(b) {
			r.ev.Count("out_of_domain", 1)
			return
		}
		if len(xs) < limit {
			xs = append(xs, [2]string{a, b})
		}
		kc := known.Case{Check: "order", Eco: "maven", Inputs: []string{a, b}}
		if r.check(rt, kc) && a != b && strings.ContainsAny(a+b, mavenLetters+"-") {
			cls := "maven/group"
			if strings.Contains(a+b, "-") && !strings.ContainsAny(a+b, mavenLetters) {
				cls = "maven/build-number"
			}
			r.ev.NonTrivial(cls, func() any { return kc.Inputs }, a, b)
		}
	})
}

var mvnLine = regexp.MustCompile(`^\s+(\S+) (<|==|>) (\S+)$`)

// crossCheckMaven validates the ComparableVersion model against the real
// class from the installed Maven jar, when java and the jar exist.
func crossCheckMaven(r *runner, pairs [][2]string) {
	jar := "/usr/share/java/maven-artifact-3.x.jar"
	if _, err := os.Stat(jar); err != nil {
		r.ev.Note("oracle_crosscheck", "maven-artifact jar not installed: ComparableVersion model not cross-checked in this run")
		return
	}
	if _, err := exec.LookPath("java"); err != nil {
		r.ev.Note("oracle_crosscheck", "java not installed: ComparableVersion model not cross-checked in this run")
		return
	}
	n, bad := 0, 0
	for off := 0; off < len(pairs); off += 2000 {
		end := off + 2000
		if end > len(pairs) {
			end = len(pairs)
		}
		var args []string
		for _, p := range pairs[off:end] {
			args = append(args, p[0], p[1])
		}
		out, err := exec.Command("java", append([]string{"-cp", jar, "org.apache.maven.artifact.versioning.ComparableVersion"}, args...)...).Output()
		if err != nil {
			r.ev.Note("oracle_crosscheck", "java run failed: "+err.Error())
			return
		}
		idx := 0
		for _, ln := range strings.Split(string(out), "\n") {
			m := mvnLine.FindStringSubmatch(ln)
			if m == nil {
				continue
			}
			if idx%2 == 0 && idx+1 < len(args) {
				a, b := args[idx], args[idx+1]
				if m[1] == a && m[3] == b {
					want := map[string]int{"<": -1, "==": 0, ">": 1}[m[2]]
					n++
					if got := model.MavenCompare(a, b); got != want {
						bad++
						fmt.Fprintf(os.Stderr, "ORACLE-DISAGREEMENT: maven model %q %q model=%d jar=%d\n", a, b, got, want)
					}
				}
			}
			idx++
		}
	}
	r.ev.Count("oracle_crosscheck_pairs", int64(n))
	r.ev.Count("oracle_disagreement", int64(bad))
	r.ev.Note("oracle_crosscheck", "reference model compared with org.apache.maven.artifact.versioning.ComparableVersion from the installed maven-artifact jar")
}
