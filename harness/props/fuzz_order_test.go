package props

import (
	"encoding/json"
	"testing"

	"verifharness/eco"
	"verifharness/known"
)

// Native coverage-guided fuzz targets for the reference-model properties
// (C08–C14), the VERS validator (C17) and range/Compare agreement on equal
// versions (C20). Each target decodes the fuzz input into the plain Case of
// the property's registered oracle and evaluates exactly that oracle — the
// domain filters of the property ("out of domain" => nothing claimed) and the
// known-finding classes therefore apply unchanged. The failing Case is
// printed as JSON (FUZZCASE ...) so that the driver turns it into a replay
// file that `./check --replay` understands.

// fuzzEval evaluates one case; on a violation it fails the fuzz run.
func fuzzEval(t *testing.T, kc known.Case) {
	if len(kc.Inputs) == 0 {
		return
	}
	if known.Match(kc) != "" {
		return
	}
	bad, detail, err := evalCase(kc)
	if err != nil {
		t.Skip(err.Error())
	}
	if bad {
		kc.Detail = detail
		b, _ := json.Marshal(kc)
		t.Fatalf("%s-FUZZ eco=%s check=%s %s\nFUZZCASE %s", kc.Property, kc.Eco, kc.Check, detail, b)
	}
}

func tooLong(n int, ss ...string) bool {
	k := 0
	for _, s := range ss {
		k += len(s)
	}
	return k > n
}

func addPairs(f *testing.F, step int, extra ...[2]string) {
	for _, p := range extra {
		f.Add(p[0], p[1])
	}
	for i := 0; i+1 < len(harvested); i += step {
		f.Add(harvested[i], harvested[i+1])
	}
}

func fuzzOrder(f *testing.F, pid string, ecos []string) {
	f.Fuzz(func(t *testing.T, a, b string) {
		if tooLong(160, a, b) {
			return
		}
		for _, en := range ecos {
			fuzzEval(t, known.Case{Property: pid, Check: "order", Eco: en, Inputs: []string{a, b}})
		}
	})
}

func FuzzC08Order(f *testing.F) {
	addPairs(f, 11, [2]string{"1.0.0-alpha", "1.0.0-alpha.1"}, [2]string{"1.0.0-alpha.beta", "1.0.0-beta.2"}, [2]string{"1.0.0-rc.1", "1.0.0"},
		[2]string{"v1.2.3-0.3.7", "v1.2.3-x.7.z.92"}, [2]string{"1.0.0+build", "1.0.0+other"}, [2]string{"1.0.0-10", "1.0.0-9"},
		[2]string{"1.0.0-a-b", "1.0.0-a.b"}, [2]string{"1.2.3.4-beta", "1.2.3.4"}, [2]string{"1.0.0-99999999999999999999", "1.0.0-100000000000000000000"})
	fuzzOrder(f, "C08", semFamily)
}

func FuzzC09Order(f *testing.F) {
	addPairs(f, 11, [2]string{"1.0.dev1", "1.0a1"}, [2]string{"1!0.5", "2.0"}, [2]string{"1.0.post1.dev2", "1.0.post1"}, [2]string{"1.0+local.1", "1.0+local.a"},
		[2]string{"1.0rc1", "1.0c1"}, [2]string{"1.0-1", "1.0.post1"}, [2]string{"v1.0", "1.0.0"}, [2]string{"1.0ALPHA", "1.0a0"}, [2]string{"1.0+ABC", "1.0+abc"})
	fuzzOrder(f, "C09", []string{"pypi"})
}

func FuzzC10Order(f *testing.F) {
	addPairs(f, 11, [2]string{"1:1.0-1", "1.0-1"}, [2]string{"1.0~rc1-1", "1.0-1"}, [2]string{"1.0+dfsg-1", "1.0-1"}, [2]string{"1.0-1-1", "1.0-1"},
		[2]string{"1.0a", "1.0+"}, [2]string{"1.0.", "1.0-"}, [2]string{"0001", "1"}, [2]string{"1.0-0", "1.0"}, [2]string{"1.0~~", "1.0~"})
	fuzzOrder(f, "C10", []string{"debian"})
}

func FuzzC11Order(f *testing.F) {
	addPairs(f, 11, [2]string{"1:1.0-1", "1.0-1"}, [2]string{"1.0~rc1", "1.0"}, [2]string{"1.0^git1", "1.0.1"}, [2]string{"1.0_1", "1.0.1"},
		[2]string{"1.0a", "1.01"}, [2]string{"1.0-1.el8", "1.0-1.el8_3"}, [2]string{"00001", "1"}, [2]string{"1.0~^", "1.0^~"}, [2]string{"1a", "1.a"})
	fuzzOrder(f, "C11", []string{"rpm"})
}

func FuzzC12Order(f *testing.F) {
	addPairs(f, 11, [2]string{"1.0-alpha-1", "1.0-a1"}, [2]string{"1.0-SNAPSHOT", "1.0"}, [2]string{"1.0-sp", "1.0-ga"}, [2]string{"1.0.0", "1"},
		[2]string{"1.0-rc1", "1.0-cr1"}, [2]string{"1.0-1", "1.0.1"}, [2]string{"1.0-final", "1.0-release"}, [2]string{"1.0-m1", "1.0-milestone-1"}, [2]string{"2.0.a", "2.0.0.a"})
	fuzzOrder(f, "C12", []string{"maven"})
}

func FuzzC13Order(f *testing.F) {
	addPairs(f, 11, [2]string{"1.0.a", "1.0"}, [2]string{"1.0.0.pre", "1.0.0.rc1"}, [2]string{"1.0-1", "1.0.pre.1"}, [2]string{"1.0.a10", "1.0.a9"},
		[2]string{"1.0.0", "1"}, [2]string{"1.a.0", "1.a"}, [2]string{"1.0.b1", "1.0.b.1"}, [2]string{"01", "1"}, [2]string{"1.0.A", "1.0.a"})
	fuzzOrder(f, "C13", []string{"gem"})
}

func FuzzC14Order(f *testing.F) {
	addPairs(f, 11, [2]string{"1.0_alpha1", "1.0_beta1"}, [2]string{"1.0-r1", "1.0-r2"}, [2]string{"1.0a", "1.0b"}, [2]string{"1.0_p1", "1.0"},
		[2]string{"1.0_rc1-r0", "1.0_rc1"}, [2]string{"1.01", "1.1"}, [2]string{"1.0~abc", "1.0"}, [2]string{"1.0_git20200101", "1.0_svn1"}, [2]string{"1.0_alpha_beta", "1.0_alpha"})
	fuzzOrder(f, "C14", []string{"alpine"})
}

// FuzzC17Rejects: any VERS text that the stated rules call ill-formed must be answered (false, error).
func FuzzC17Rejects(f *testing.F) {
	for _, sc := range eco.SchemeNames {
		f.Add("vers:"+sc+"/>=1.0.0|<2.0.0", "1.5.0")
		f.Add("vers:"+sc+"/*", "1.0")
		f.Add("vers:"+sc+"/>=1.0|*", "1.0")
		f.Add("vers:"+sc+"/<1.0|>=2.0|!=3.0|=4.0", "2.0")
	}
	for _, s := range []string{"", "vers:", "vers:/", "vers:npm", "vers:npm/", "vers:npm/|", "VERS:npm/1.0", "vers:Npm/1.0", "vers:npmm/1.0", "vers:npm/>=", "vers:npm/=>1.0",
		"vers:npm/1.0||2.0", "vers:npm/ >= 1.0 | < 2.0 ", "vers:npm/>=1.0|>=1.0", "vers:npm/<1.0|<2.0", "vers:npm/>=2.0|<1.0", "pkg:npm/1.0", "vers:npm:1.0"} {
		f.Add(s, "1.0.0")
	}
	f.Fuzz(func(t *testing.T, rng, probe string) {
		if tooLong(200, rng, probe) {
			return
		}
		fuzzEval(t, known.Case{Property: "C17", Check: "rejects", Eco: "vers", Inputs: []string{rng, probe}})
	})
}

// FuzzC20Equal: versions that compare equal are members of the same ranges, for strings outside my grammars too.
func FuzzC20Equal(f *testing.F) {
	f.Add(">=1.0.0 <2.0.0", "1.0", "1.0.0")
	f.Add("^1.2", "1.2.0+a", "1.2.0+b")
	f.Add("[1.0,2.0)", "1.0", "1.0.0")
	f.Add("~>1.0", "1.0", "1.0.0")
	f.Add(">=1.0,<2.0", "1.0.post0", "1.0-0")
	f.Add("==1.0.*", "1.0", "1.0.0")
	f.Add("<1.0-1", "1.0", "1.0-0")
	for i := 0; i+2 < len(harvested); i += 13 {
		f.Add(harvested[i], harvested[i+1], harvested[i+2])
		f.Add(harvested[i+2], harvested[i], harvested[i+1])
	}
	f.Fuzz(func(t *testing.T, rng, v1, v2 string) {
		if tooLong(200, rng, v1, v2) {
			return
		}
		for _, e := range eco.All {
			if _, err := e.NewRange(rng); err != nil {
				continue
			}
			fuzzEval(t, known.Case{Property: "C20", Check: "equal", Eco: e.Name, Inputs: []string{rng, v1, v2}})
		}
	})
}
