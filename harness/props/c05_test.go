package props

import (
	"encoding/json"
	"fmt"
	"regexp"
	"strconv"
	"strings"
	"testing"

	"pgregory.net/rapid"

	"verifharness/eco"
	"verifharness/gen"
	"verifharness/known"
	"verifharness/model"
)

// C05 — shorthand range operators denote their documented intervals.
// check "interval": inputs [kind, probe, JSON array of args]

var c05Ecos = []string{"npm", "cargo", "composer", "conan", "gem", "hex", "pypi", "nuget", "maven"}

func numHead3(s string) (string, string) {
	s = strings.TrimLeft(strings.TrimSpace(s), "=v")
	if k := strings.Index(s, "!"); k > 0 && strings.Trim(s[:k], "0123456789") == "" {
		s = s[k+1:] // PEP 440 epoch: probes are built with the same epoch (see c05Probe)
	}
	i := 0
	for i < len(s) && (s[i] == '.' || (s[i] >= '0' && s[i] <= '9')) {
		i++
	}
	head := strings.TrimRight(s[:i], ".")
	rest := s[len(head):]
	p := strings.Split(head, ".")
	for k := range p {
		p[k] = strings.TrimLeft(p[k], "0")
		if p[k] == "" {
			p[k] = "0"
		}
	}
	// normal form: exactly the significant components, at least three
	for len(p) > 3 && p[len(p)-1] == "0" {
		p = p[:len(p)-1]
	}
	for len(p) < 3 {
		p = append(p, "0")
	}
	return strings.Join(p, "."), rest
}

var plainStable = regexp.MustCompile(`^v?[0-9]+(\.[0-9]+){0,3}$`)
var conanNumericParts = regexp.MustCompile(`^[0-9]+(\.[0-9]+)*(-[0-9a-z.-]+)?(\+[0-9a-z.-]+)?$`)
var pypiFinalOrPost = regexp.MustCompile(`^([0-9]+!)?[0-9]+(\.[0-9]+)*(\.?post[0-9]+)?$`)

// isPreOf: probe is spelled as a pre-release of the version `of` (same numbers, some pre-release marker).
func isPreOf(ecoName, probe, of string) bool {
	if of == "" {
		return false
	}
	hp, rest := numHead3(probe)
	ho, _ := numHead3(strings.TrimSuffix(of, "-0"))
	if hp != ho || rest == "" {
		return false
	}
	switch ecoName {
	case "gem":
		return strings.ContainsAny(rest, "-abcdefghijklmnopqrstuvwxyzABCDEFGHIJKLMNOPQRSTUVWXYZ")
	default:
		return strings.HasPrefix(rest, "-")
	}
}

// c05Claimed applies the property's (and DESIGN.md's) scope restrictions.
func c05Claimed(ecoName, kind string, args []string, sh model.Shorthand, probe string) (bool, string) {
	literal := kind == "bracket" || kind == "exact" || kind == "bare" || kind == "hyphen" || kind == "star"
	switch ecoName {
	case "composer":
		if !plainStable.MatchString(probe) {
			return false, "composer probes are restricted to stable versions"
		}
	case "pypi":
		if !pypiFinalOrPost.MatchString(probe) {
			return false, "pypi probes for ~= and .* are final or post releases"
		}
	case "gem":
		if !model.GemValid(strings.TrimSpace(probe)) {
			return false, "gem probes are restricted to strings RubyGems itself accepts (no v prefix, no +build)"
		}
	case "conan":
		if !literal && !conanNumericParts.MatchString(strings.ToLower(probe)) {
			return false, "conan probes with letters inside the main parts are not claimed (Conan itself orders 99a above 100, go-univers between 99 and 100)"
		}
	}
	if !literal && ecoName != "npm" && isPreOf(ecoName, probe, sh.Iv.Hi) {
		return false, "pre-release band of the upper bound is not claimed outside npm"
	}
	if sh.Wildcard && isPreOf(ecoName, probe, sh.Iv.Lo) {
		return false, "pre-release band below a wildcard's lower bound is not claimed"
	}
	if ecoName == "conan" && kind == "caret" && len(args) == 3 && atoiOK(args[0]) == 0 && atoiOK(args[1]) == 0 {
		h, _ := numHead3(probe)
		p := strings.Split(h, ".")
		if p[0] == "0" && p[1] == "0" && atoiOK(p[2]) > atoiOK(args[2]) {
			return false, "conan ^0.0.Z between 0.0.(Z+1) and 0.1.0 is not claimed"
		}
	}
	return true, ""
}

func atoiOK(s string) int {
	n, _ := strconv.Atoi(s)
	return n
}

func init() {
	registerCheck("C05", "interval", func(c known.Case) (bool, string) {
		e := eco.ByName(c.Eco)
		kind, probe := c.Inputs[0], c.Inputs[1]
		var args []string
		if err := json.Unmarshal([]byte(c.Inputs[2]), &args); err != nil {
			return false, "bad args"
		}
		sh, ok := model.MakeShorthand(c.Eco, kind, args)
		if !ok {
			return false, "unknown construct"
		}
		if cl, why := c05Claimed(c.Eco, kind, args, sh, probe); !cl {
			return false, why
		}
		pv, err := e.NewVersion(probe)
		if err != nil {
			return false, "probe rejected"
		}
		want, err := sh.Iv.Contains(func(bound string) (int, error) {
			bv, err := e.NewVersion(bound)
			if err != nil {
				return 0, err
			}
			return pv.Compare(bv), nil
		})
		if err != nil {
			return false, "interval bound not parseable by the ecosystem: " + err.Error()
		}
		r, err := e.NewRange(sh.Text)
		if err != nil {
			return true, fmt.Sprintf("documented construct %q was rejected: %v", sh.Text, err)
		}
		if got := r.Contains(pv); got != want {
			return true, fmt.Sprintf("%q contains %q = %v, documented interval %s gives %v", sh.Text, probe, got, ivString(sh.Iv), want)
		}
		return false, ""
	})
}

// comboSeps: AND separators with which a shorthand can be combined with a comparator.
var comboSeps = map[string][]string{
	"npm": {" "}, "cargo": {",", ", "}, "composer": {" ", ",", ", "}, "conan": {",", " ", ", "}, "gem": {",", ", "}, "hex": {" ", " and "}, "pypi": {",", ", "},
}

func init() {
	// combo: a shorthand joined with one comparator by the ecosystem's AND separator denotes the intersection.
	// inputs [kind, probe, JSON args, op, bound, separator, order("sf" shorthand first | "cf" comparator first)]
	registerCheck("C05", "combo", func(c known.Case) (bool, string) {
		e := eco.ByName(c.Eco)
		kind, probe, op, bound, sep, order := c.Inputs[0], c.Inputs[1], c.Inputs[3], c.Inputs[4], c.Inputs[5], c.Inputs[6]
		var args []string
		if err := json.Unmarshal([]byte(c.Inputs[2]), &args); err != nil {
			return false, "bad args"
		}
		sh, ok := model.MakeShorthand(c.Eco, kind, args)
		if !ok {
			return false, "unknown construct"
		}
		if cl, why := c05Claimed(c.Eco, kind, args, sh, probe); !cl {
			return false, why
		}
		okSep := false
		for _, x := range comboSeps[c.Eco] {
			okSep = okSep || x == sep
		}
		if !okSep || !gen.BoundInScope(c.Eco, bound) {
			return false, "separator or bound out of scope"
		}
		pv, err := e.NewVersion(probe)
		if err != nil {
			return false, "probe rejected"
		}
		bv, err := e.NewVersion(bound)
		if err != nil {
			return false, "bound rejected"
		}
		inIv, err := sh.Iv.Contains(func(b string) (int, error) {
			x, err := e.NewVersion(b)
			if err != nil {
				return 0, err
			}
			return pv.Compare(x), nil
		})
		if err != nil {
			return false, "interval bound not parseable"
		}
		want := inIv && gen.Cmp{Op: op, Bound: bound}.Holds(sign(pv.Compare(bv)))
		text := sh.Text + sep + op + bound
		if order == "cf" {
			text = op + bound + sep + sh.Text
		}
		r, err := e.NewRange(text)
		if err != nil {
			return false, "combination not supported by the parser (not claimed)"
		}
		if got := r.Contains(pv); got != want {
			return true, fmt.Sprintf("%q contains %q = %v, but %s intersected with %s%s gives %v", text, probe, got, ivString(sh.Iv), op, bound, want)
		}
		return false, ""
	})
}

func ivString(iv model.Interval) string {
	if iv.All {
		return "(everything)"
	}
	lb, rb := "(", ")"
	if iv.LoInc {
		lb = "["
	}
	if iv.HiInc {
		rb = "]"
	}
	s := lb + iv.Lo + "," + iv.Hi + rb
	if iv.Complement {
		s = "not " + s
	}
	return s
}

func c05Part(rt *rapid.T, l string) string {
	return gen.Pick(rt, l, "0", "0", "0", "1", "1", "2", "3", "9", "10", "99")
}

var c05SemPre = []string{"alpha", "alpha.1", "alpha.2", "rc.1", "0", "beta", "rc1"}

// c05Construct draws (kind, args) for the ecosystem.
func c05Construct(rt *rapid.T, name string) (string, []string) {
	x, y, z, w := c05Part(rt, "x"), c05Part(rt, "y"), c05Part(rt, "z"), c05Part(rt, "w")
	pre := ""
	if gen.Chance(rt, "hasPre", 1, 4) {
		pre = gen.Pick(rt, "pre", c05SemPre...)
	}
	full := func(l string) string {
		return c05Part(rt, l+"a") + "." + c05Part(rt, l+"b") + "." + c05Part(rt, l+"c")
	}
	switch name {
	case "npm":
		switch rapid.IntRange(0, 6).Draw(rt, "k") {
		case 0, 1:
			return "caret", []string{x, y, z, pre}
		case 2:
			return "tilde", []string{x, y, z, pre}
		case 3:
			return "x1", []string{x, gen.Pick(rt, "xc", "x", "X", "*")}
		case 4:
			return "x2", []string{x, y, gen.Pick(rt, "xc", "x", "X", "*")}
		case 5:
			return "star", nil
		default:
			return "hyphen", []string{full("h1"), full("h2")}
		}
	case "cargo":
		n := rapid.IntRange(1, 3).Draw(rt, "arity")
		parts := []string{x, y, z}[:n]
		if n < 3 {
			pre = ""
		}
		switch rapid.IntRange(0, 5).Draw(rt, "k") {
		case 0, 1:
			return "caret", append(append([]string{}, parts...), pre)
		case 2:
			return "tilde", append(append([]string{}, parts...), pre)
		case 3:
			return "wild1", []string{x}
		case 4:
			return "wild2", []string{x, y}
		default:
			return "star", nil
		}
	case "composer":
		n := rapid.IntRange(2, 3).Draw(rt, "arity")
		parts := []string{x, y, z}[:n]
		switch rapid.IntRange(0, 5).Draw(rt, "k") {
		case 0, 1:
			return "caret", parts
		case 2:
			return "tilde", parts
		case 3:
			return "wild1", []string{x, gen.Pick(rt, "xc", "*", "x")}
		case 4:
			return "wild2", []string{x, y, gen.Pick(rt, "xc", "*", "x")}
		default:
			return "hyphen", []string{full("h1"), full("h2")}
		}
	case "conan":
		n := rapid.IntRange(1, 3).Draw(rt, "arity")
		return gen.Pick(rt, "k", "tilde", "caret"), []string{x, y, z}[:n]
	case "gem":
		n := rapid.IntRange(1, 4).Draw(rt, "arity")
		p := ""
		if gen.Chance(rt, "hasPre", 1, 4) {
			p = gen.Pick(rt, "gpre", "rc1", "a", "pre", "beta2", "rc.1", "-rc1", "-alpha", "-1", "-3.4", "-1.rc2", "-2024.01", "-0.1.a")
		}
		return "pess", append(append([]string{}, []string{x, y, z, w}[:n]...), p)
	case "hex":
		n := rapid.IntRange(2, 3).Draw(rt, "arity")
		if n < 3 {
			pre = ""
		}
		return "pess", append(append([]string{}, []string{x, y, z}[:n]...), pre)
	case "pypi":
		switch rapid.IntRange(0, 4).Draw(rt, "k") {
		case 4:
			ep := gen.Pick(rt, "ep", "1", "2")
			if gen.Chance(rt, "epk", 1, 2) {
				n := rapid.IntRange(2, 4).Draw(rt, "arity")
				suf := gen.Pick(rt, "suf", "", "", ".post3", "a4")
				return "compat-epoch", append(append([]string{ep}, []string{x, y, z, w}[:n]...), suf)
			}
			n := rapid.IntRange(1, 3).Draw(rt, "arity")
			return "prefix-epoch", append([]string{ep}, []string{x, y, z}[:n]...)
		case 0, 1:
			n := rapid.IntRange(2, 4).Draw(rt, "arity")
			suf := gen.Pick(rt, "suf", "", "", "", ".post3", "a4", "rc1", ".post0")
			return "compat", append(append([]string{}, []string{x, y, z, w}[:n]...), suf)
		case 2:
			n := rapid.IntRange(1, 3).Draw(rt, "arity")
			return "prefix", []string{x, y, z}[:n]
		default:
			n := rapid.IntRange(1, 3).Draw(rt, "arity")
			return "notprefix", []string{x, y, z}[:n]
		}
	case "nuget", "maven":
		e := eco.ByName(name)
		lo := gen.Version(rt, name, "lo")
		lo = strings.TrimPrefix(lo, "v")
		hi := gen.Neighbor(rt, e, lo, "hi")
		hi = strings.TrimPrefix(hi, "v")
		if strings.ContainsAny(lo+hi, ",[]() ") {
			lo, hi = x+"."+y, x+"."+y+"."+z
		}
		switch rapid.IntRange(0, 5).Draw(rt, "k") {
		case 0, 1, 2:
			return "bracket", []string{gen.Pick(rt, "ob", "[", "("), lo, hi, gen.Pick(rt, "cb", "]", ")")}
		case 3:
			if gen.Chance(rt, "lowopen", 1, 2) {
				return "bracket", []string{gen.Pick(rt, "ob", "[", "("), "", hi, gen.Pick(rt, "cb", "]", ")")}
			}
			return "bracket", []string{gen.Pick(rt, "ob", "[", "("), lo, "", gen.Pick(rt, "cb", "]", ")")}
		case 4:
			return "exact", []string{lo}
		default:
			if name == "nuget" {
				return "bare", []string{lo}
			}
			return "exact", []string{lo}
		}
	}
	return "", nil
}

// lastBefore returns a plain three-part version just below the three-part u.
func lastBefore(u string) string {
	h, _ := numHead3(u)
	p := strings.Split(h, ".")
	a, b, c := atoiOK(p[0]), atoiOK(p[1]), atoiOK(p[2])
	switch {
	case c > 0:
		return fmt.Sprintf("%d.%d.%d", a, b, c-1)
	case b > 0:
		return fmt.Sprintf("%d.%d.999999", a, b-1)
	case a > 0:
		return fmt.Sprintf("%d.999999.999999", a-1)
	}
	return "0.0.0"
}

func c05PreSuffix(rt *rapid.T, name string) string {
	switch name {
	case "gem":
		return gen.Pick(rt, "ps", ".rc1", ".a", ".pre")
	case "pypi":
		return gen.Pick(rt, "ps", "a1", "rc1", ".dev1")
	case "maven":
		return gen.Pick(rt, "ps", "-alpha-1", "-SNAPSHOT", "-rc1")
	case "composer":
		return gen.Pick(rt, "ps", "-alpha1", "-RC1", "-beta2")
	}
	return gen.Pick(rt, "ps", "-alpha", "-0", "-rc.1", "-alpha.1")
}

// c05Probe draws a probe around the interval's boundaries.
func c05Probe(rt *rapid.T, e eco.Eco, sh model.Shorthand) string {
	p := c05ProbeNoEpoch(rt, e, sh)
	// PEP 440 epoch of the construct: most probes share it, some do not
	if k := strings.Index(sh.Iv.Lo, "!"); e.Name == "pypi" && k > 0 && !strings.Contains(p, "!") && gen.Chance(rt, "sameEpoch", 5, 6) {
		p = sh.Iv.Lo[:k+1] + p
	}
	return p
}

func c05ProbeNoEpoch(rt *rapid.T, e eco.Eco, sh model.Shorthand) string {
	lo, hi := sh.Iv.Lo, strings.TrimSuffix(sh.Iv.Hi, "-0")
	if k := strings.Index(lo, "!"); e.Name == "pypi" && k > 0 {
		lo = lo[k+1:]
		if k2 := strings.Index(hi, "!"); k2 > 0 {
			hi = hi[k2+1:]
		}
	}
	pick := func(xs ...string) string {
		var ys []string
		for _, x := range xs {
			if x != "" {
				ys = append(ys, x)
			}
		}
		if len(ys) == 0 {
			return gen.Version(rt, e.Name, "pfresh")
		}
		return gen.Pick(rt, "pp", ys...)
	}
	bump := func(v string) string { // plain version above v's numbers
		if v == "" {
			return ""
		}
		h, _ := numHead3(v)
		p := strings.Split(h, ".")
		i := rapid.IntRange(0, 2).Draw(rt, "bi")
		p[i] = strconv.Itoa(atoiOK(p[i]) + rapid.IntRange(1, 2).Draw(rt, "bd"))
		for k := i + 1; k < 3; k++ {
			p[k] = gen.Pick(rt, fmt.Sprintf("bz%d", k), "0", "0", "1", "5")
		}
		return strings.Join(p, ".")
	}
	plain := func(v string) string {
		if v == "" {
			return ""
		}
		h, _ := numHead3(v)
		return h
	}
	switch rapid.IntRange(0, 11).Draw(rt, "probeKind") {
	case 0:
		return pick(lo, plain(lo))
	case 1:
		return pick(hi, plain(hi), sh.Iv.Hi)
	case 2:
		return pick(lastBefore(hi), lastBefore(lo))
	case 3:
		if lo != "" {
			return plain(lo) + c05PreSuffix(rt, e.Name)
		}
		return pick(hi)
	case 4:
		if hi != "" {
			return plain(hi) + c05PreSuffix(rt, e.Name)
		}
		return pick(lo)
	case 5:
		return pick(bump(lo), bump(hi))
	case 6:
		return pick(bump(hi))
	case 7:
		if lo != "" {
			return gen.Neighbor(rt, e, lo, "nlo")
		}
		return gen.Neighbor(rt, e, hi, "nhi")
	case 8:
		if hi != "" {
			return gen.Neighbor(rt, e, hi, "nhi")
		}
		return gen.Neighbor(rt, e, lo, "nlo")
	case 9:
		if e.Name == "pypi" {
			return pick(plain(lo)+".post1", plain(hi)+".post1", lastBefore(hi)+".post2")
		}
		return pick(plain(lo)+".1", plain(hi)+".0")
	case 10:
		return pick(lastBefore(hi) + c05PreSuffix(rt, e.Name))
	default:
		return gen.Version(rt, e.Name, "pfresh")
	}
}

func TestC05(t *testing.T) {
	r := newRunner(t, "C05")
	for _, e := range ecosFor(t) {
		e := e
		ok := false
		for _, n := range c05Ecos {
			ok = ok || n == e.Name
		}
		if !ok {
			continue
		}
		rapid.Check(t, func(rt *rapid.T) {
			kind, args := c05Construct(rt, e.Name)
			sh, ok := model.MakeShorthand(e.Name, kind, args)
			if !ok {
				r.ev.Count("construct_not_built", 1)
				return
			}
			probe := c05Probe(rt, e, sh)
			if _, err := e.NewVersion(probe); err != nil {
				r.ev.Count("probe_rejected", 1)
				return
			}
			if cl, _ := c05Claimed(e.Name, kind, args, sh, probe); !cl {
				r.ev.Count("unclaimed_probe", 1)
				return
			}
			aj, _ := json.Marshal(args)
			kc := known.Case{Check: "interval", Eco: e.Name, Inputs: []string{kind, probe, string(aj)}}
			if !r.check(rt, kc) {
				return
			}
			if seps := comboSeps[e.Name]; len(seps) > 0 && kind != "hyphen" && kind != "star" && gen.Chance(rt, "combo", 1, 3) {
				// the same shorthand joined with a comparator whose bound lies near the interval
				var bound string
				switch rapid.IntRange(0, 2).Draw(rt, "cbk") {
				case 0:
					bound = lastBefore(strings.TrimSuffix(sh.Iv.Hi, "-0"))
				case 1:
					h, _ := numHead3(sh.Iv.Lo)
					pp := strings.Split(h, ".")
					pp[len(pp)-1] = strconv.Itoa(atoiOK(pp[len(pp)-1]) + rapid.IntRange(0, 3).Draw(rt, "cbd"))
					bound = strings.Join(pp, ".")
				default:
					h, _ := numHead3(probe)
					bound = h
				}
				if k := strings.Index(sh.Iv.Lo, "!"); e.Name == "pypi" && k > 0 {
					bound = sh.Iv.Lo[:k+1] + bound
				}
				ops := gen.Syntax[e.Name].Ops
				op := gen.Pick(rt, "cop", ops...)
				sep := gen.Pick(rt, "csep", seps...)
				order := gen.Pick(rt, "cord", "sf", "cf")
				if _, err := e.NewVersion(bound); err == nil && gen.BoundInScope(e.Name, bound) {
					kc2 := known.Case{Check: "combo", Eco: e.Name, Inputs: []string{kind, probe, string(aj), op, bound, sep, order}}
					text := sh.Text + sep + op + bound
					if order == "cf" {
						text = op + bound + sep + sh.Text
					}
					if _, err := e.NewRange(text); err != nil {
						r.ev.Count("combination_not_supported_by_parser", 1)
					} else if r.check(rt, kc2) {
						r.ev.NonTrivial(e.Name+"/"+kind+"/combined-with-comparator", func() any { return map[string]string{"range": text, "probe": probe} }, e.Name, text, probe)
					}
				}
			}
			// non-trivial: probe within one step of a boundary, 0.x base, or pre-release base
			hp, _ := numHead3(probe)
			near := false
			for _, b := range []string{sh.Iv.Lo, sh.Iv.Hi} {
				if b == "" {
					continue
				}
				hb, _ := numHead3(b)
				if hb == hp || hp == lastBefore(b) {
					near = true
				}
			}
			zeroBase := len(args) > 0 && args[0] == "0"
			preBase := strings.ContainsAny(sh.Iv.Lo, "-") || (len(args) > 0 && args[len(args)-1] != "" && strings.ContainsAny(args[len(args)-1], "abcdefghijklmnopqrstuvwxyz"))
			if near || zeroBase || preBase {
				cls := e.Name + "/" + kind
				if zeroBase {
					cls += "/zero-major"
				}
				if preBase {
					cls += "/pre-release-base"
				}
				r.ev.NonTrivial(cls, func() any { return map[string]string{"range": sh.Text, "probe": probe, "interval": ivString(sh.Iv)} }, e.Name, sh.Text, probe)
			}
		})
	}
}
