package props

import (
	"encoding/binary"
	"encoding/json"
	"fmt"
	"os"
	"slices"
	"sort"
	"strings"
	"testing"

	"pgregory.net/rapid"

	"verifharness/eco"
	"verifharness/evid"
	"verifharness/known"
)

// Environment contract with the driver (/verif/check):
//
//	VERIF_ECO       ecosystem (or VERS scheme) this process works on; "" = all
//	VERIF_OUT       path of the partial evidence file to write
//	VERIF_FAIL_OUT  path where the final (shrunk) failing case is written
//	VERIF_TIER      quick | thorough
//	VERIF_KNOWN     path of KNOWN_FINDINGS.txt
//	VERIF_SHARD     free-form shard label (part of the evidence record)
var (
	envEco   = os.Getenv("VERIF_ECO")
	envOut   = os.Getenv("VERIF_OUT")
	envFail  = os.Getenv("VERIF_FAIL_OUT")
	envTier  = os.Getenv("VERIF_TIER")
	envShard = os.Getenv("VERIF_SHARD")
)

func thorough() bool { return envTier == "thorough" }

// repoRoot is the go-univers tree the harness is built against (the driver
// passes VERIF_REPO; the registered checks always use /repo).
func repoRoot() string {
	if p := os.Getenv("VERIF_REPO"); p != "" {
		return p
	}
	return "/repo"
}

func TestMain(m *testing.M) {
	if p := os.Getenv("VERIF_KNOWN"); p != "" {
		if err := known.Load(p); err != nil {
			fmt.Fprintln(os.Stderr, "HARNESS-ERROR: cannot load known findings:", err)
			os.Exit(3)
		}
	}
	os.Exit(m.Run())
}

// replayers: property/check -> oracle over a plain Case. The same function is
// used by the generated search and by file replay, so a replay keeps working
// when generators change. It returns violated=true with a description.
var replayers = map[string]func(c known.Case) (bool, string){}

func registerCheck(property, check string, f func(c known.Case) (bool, string)) {
	replayers[property+"/"+check] = f
}

func evalCase(c known.Case) (violated bool, detail string, err error) {
	f, ok := replayers[c.Property+"/"+c.Check]
	if !ok {
		return false, "", fmt.Errorf("no replayer for %s/%s", c.Property, c.Check)
	}
	// an operation of the library that panics while a property is evaluated cannot have produced the result the
	// property requires: it is reported as a violation of that property (with the panic value), not as a harness failure
	defer func() {
		if p := recover(); p != nil {
			violated, detail, err = true, fmt.Sprintf("the library panicked while the property was evaluated: %v", p), nil
		}
	}()
	v, d := f(c)
	return v, d, nil
}

// runner carries the per-process state of one property run.
type runner struct {
	prop string
	ev   *evid.Rec
	last *known.Case
}

func newRunner(t *testing.T, prop string) *runner {
	shard := envEco
	if envShard != "" {
		shard += "#" + envShard
	}
	r := &runner{prop: prop, ev: evid.New(prop, shard)}
	t.Cleanup(func() {
		if envOut != "" {
			if err := r.ev.Flush(envOut); err != nil {
				t.Errorf("HARNESS-ERROR: flush evidence: %v", err)
			}
		}
		if r.last != nil && t.Failed() && envFail != "" {
			b, _ := json.MarshalIndent(r.last, "", " ")
			_ = os.WriteFile(envFail, b, 0o644)
		}
	})
	return r
}

// violation is what the property calls when the oracle rejects a case.
func (r *runner) violation(rt *rapid.T, c known.Case) {
	cc := c
	r.last = &cc
	rt.Fatalf("VIOLATION-CASE %s", c.String())
}

// check runs the registered oracle on c unless c lies in an active
// known-finding class. It returns false when the case was excluded.
func (r *runner) check(rt *rapid.T, c known.Case) bool {
	c.Property = r.prop
	if cls := known.Match(c); cls != "" {
		r.ev.Excluded(cls)
		return false
	}
	r.ev.Eval()
	bad, detail, err := evalCase(c)
	if err != nil {
		rt.Fatalf("HARNESS-ERROR: %v", err)
	}
	if bad {
		c.Detail = detail
		r.violation(rt, c)
	}
	return true
}

// ecosFor returns the ecosystems this process is responsible for.
func ecosFor(t *testing.T) []eco.Eco {
	if envEco == "" {
		return eco.All
	}
	for _, e := range eco.All {
		if e.Name == envEco {
			return []eco.Eco{e}
		}
	}
	t.Fatalf("HARNESS-ERROR: VERIF_ECO=%q is not an ecosystem", envEco)
	return nil
}

// schemesFor returns the VERS schemes this process is responsible for.
func schemesFor(t *testing.T) []string {
	if envEco == "" {
		return eco.SchemeNames
	}
	if _, ok := eco.Schemes[envEco]; ok {
		return []string{envEco}
	}
	t.Fatalf("HARNESS-ERROR: VERIF_ECO=%q is not a VERS scheme", envEco)
	return nil
}

func sign(x int) int {
	switch {
	case x < 0:
		return -1
	case x > 0:
		return 1
	}
	return 0
}

func sortedKeys[V any](m map[string]V) []string {
	ks := make([]string, 0, len(m))
	for k := range m {
		ks = append(ks, k)
	}
	sort.Strings(ks)
	return ks
}

// TestReplay re-evaluates the cases in VERIF_REPLAY_IN (a JSON array of
// cases) without rapid and writes [{case,violated,detail}] to VERIF_REPLAY_OUT.
func TestReplay(t *testing.T) {
	in, out := os.Getenv("VERIF_REPLAY_IN"), os.Getenv("VERIF_REPLAY_OUT")
	if in == "" {
		t.Skip("no VERIF_REPLAY_IN")
	}
	b, err := os.ReadFile(in)
	if err != nil {
		t.Fatalf("HARNESS-ERROR: %v", err)
	}
	var cases []known.Case
	if strings.HasPrefix(strings.TrimSpace(string(b)), "[") {
		err = json.Unmarshal(b, &cases)
	} else {
		var c known.Case
		err = json.Unmarshal(b, &c)
		cases = []known.Case{c}
	}
	if err != nil {
		t.Fatalf("HARNESS-ERROR: bad replay file: %v", err)
	}
	type res struct {
		Case     known.Case `json:"case"`
		Violated bool       `json:"violated"`
		Detail   string     `json:"detail"`
		Error    string     `json:"error,omitempty"`
		Class    string     `json:"class,omitempty"` // recorded known-finding class the case lies in, if any
	}
	var rs []res
	for _, c := range cases {
		v, d, err := evalCase(c)
		r := res{Case: c, Violated: v, Detail: d, Class: known.Match(c)}
		if err != nil {
			r.Error = err.Error()
		}
		rs = append(rs, r)
	}
	ob, _ := json.MarshalIndent(rs, "", " ")
	if out != "" {
		if err := os.WriteFile(out, ob, 0o644); err != nil {
			t.Fatalf("HARNESS-ERROR: %v", err)
		}
	} else {
		fmt.Println(string(ob))
	}
}

// TestMergeHashes unions the sorted hash files of each group and reports the
// number of distinct hashes per group (used by the driver to compute
// distinct_nontrivial across seed shards).
func TestMergeHashes(t *testing.T) {
	in, out := os.Getenv("VERIF_MERGE_IN"), os.Getenv("VERIF_MERGE_OUT")
	if in == "" {
		t.Skip("no VERIF_MERGE_IN")
	}
	b, err := os.ReadFile(in)
	if err != nil {
		t.Fatalf("HARNESS-ERROR: %v", err)
	}
	var groups map[string][]string
	if err := json.Unmarshal(b, &groups); err != nil {
		t.Fatalf("HARNESS-ERROR: %v", err)
	}
	res := map[string]int{}
	for g, files := range groups {
		var all []uint64
		for _, f := range files {
			hb, err := os.ReadFile(f)
			if err != nil {
				t.Fatalf("HARNESS-ERROR: %v", err)
			}
			for i := 0; i+8 <= len(hb); i += 8 {
				all = append(all, binary.LittleEndian.Uint64(hb[i:]))
			}
		}
		slices.Sort(all)
		n := 0
		for i, h := range all {
			if i == 0 || h != all[i-1] {
				n++
			}
		}
		res[g] = n
	}
	ob, _ := json.Marshal(res)
	if err := os.WriteFile(out, ob, 0o644); err != nil {
		t.Fatalf("HARNESS-ERROR: %v", err)
	}
}
