package props

import (
	"fmt"
	"strings"
	"testing"

	"github.com/alowayed/go-univers/pkg/spec/vers"
	"pgregory.net/rapid"

	"verifharness/eco"
	"verifharness/gen"
	"verifharness/known"
	"verifharness/model"
)

// C17 — VERS validates its input and routes each scheme to the right ecosystem.
//   rejects: inputs [range, probe]               ill-formed by the stated rules => (false, error)
//   routes:  inputs [scheme, op, bound, probe]   single comparator evaluated with the scheme's own ecosystem

func init() {
	registerCheck("C17", "rejects", func(c known.Case) (bool, string) {
		rng, probe := c.Inputs[0], c.Inputs[1]
		why := model.VersIllFormed(rng, probe)
		got, err := vers.Contains(rng, probe)
		if err != nil && got {
			return true, "returned true together with an error"
		}
		if len(why) > 0 && err == nil {
			return true, fmt.Sprintf("vers.Contains(%q, %q) = %v without error although the range is ill-formed: %s", rng, probe, got, strings.Join(why, "; "))
		}
		return false, ""
	})
	registerCheck("C17", "routes", func(c known.Case) (bool, string) {
		scheme, op, bound, probe := c.Inputs[0], c.Inputs[1], c.Inputs[2], c.Inputs[3]
		en, ok := eco.Schemes[scheme]
		if !ok {
			return false, "unknown scheme"
		}
		e := eco.ByName(en)
		if !versBoundOK(bound) {
			return false, "bound out of scope"
		}
		bv, err1 := e.NewVersion(bound)
		pv, err2 := e.NewVersion(probe)
		if err1 != nil || err2 != nil {
			return false, "not valid versions of the scheme's ecosystem"
		}
		want := gen.Cmp{Op: op, Bound: bound}.Holds(sign(pv.Compare(bv)))
		if scheme == "pypi" {
			kp, okp := model.PepParse(probe)
			kb, okb := model.PepParse(bound)
			if okp && okb && kp.IsPre && !kb.IsPre {
				want = false
			}
		}
		text := "vers:" + scheme + "/" + op + bound
		got, err := vers.Contains(text, probe)
		if err != nil {
			return true, fmt.Sprintf("vers.Contains(%q, %q) failed although both versions are valid %s versions: %v", text, probe, en, err)
		}
		if got != want {
			return true, fmt.Sprintf("vers.Contains(%q, %q) = %v, the %s order gives %v", text, probe, got, en, want)
		}
		return false, ""
	})
}

// near-miss scheme names: misspellings and ill-formed names only. Names of ecosystems that merely lack VERS support today
// (conan, composer, hex, ...) or plausible aliases (debian, semver) are deliberately absent: adding support for one of
// them would be a legitimate change, not a violation.
var nearMissSchemes = []string{"np", "npmm", "mavn", "pypy", "golan", "debb", "rpmm", "gemm", "nugte", "carg", "alpin", "generik", "Npm", "NPM", "npm ", " npm", "npm2", "deb1", "gems", "", "généric", "rpm-", "nu-get", "vers", "xyzzy", "unknownscheme"}

// corrupt applies a single-point corruption to a VERS string.
func corruptVers(rt *rapid.T, s string) (string, string) {
	k := strings.Index(s, "/")
	switch rapid.IntRange(0, 12).Draw(rt, "ck") {
	case 12: // repeat one constraint with a slightly different (mostly invalid) version: every constraint must be validated,
		// also one that looks like a duplicate of an earlier one
		if k > 0 {
			cons := strings.Split(s[k+1:], "|")
			c := cons[rapid.IntRange(0, len(cons)-1).Draw(rt, "dupi")]
			for _, op := range []string{">=", "<=", "!=", ">", "<", "="} {
				if strings.HasPrefix(c, op) {
					v := c[len(op):]
					var v2 string
					switch rapid.IntRange(0, 3).Draw(rt, "dupk") {
					case 0:
						v2 = "v" + v
					case 1:
						v2 = strings.ToUpper(v)
					case 2:
						v2 = v + gen.Pick(rt, "dupt", ".x", "-", "..", "a!", "_")
					default:
						v2 = gen.Corrupt(rt, v, "dupc")
					}
					if v2 == v || strings.ContainsAny(v2, "|") {
						break
					}
					at := rapid.IntRange(0, len(cons)).Draw(rt, "dupat")
					out := append(append(append([]string{}, cons[:at]...), op+v2), cons[at:]...)
					return s[:k+1] + strings.Join(out, "|"), "near-duplicate"
				}
			}
		}
	case 0: // delete one character anywhere
		i := rapid.IntRange(0, len(s)-1).Draw(rt, "ci")
		return s[:i] + s[i+1:], "delete"
	case 1: // replace one character
		i := rapid.IntRange(0, len(s)-1).Draw(rt, "ci")
		return s[:i] + gen.Pick(rt, "cv", "x", "*", "|", "/", ":", " ", "=", "<", "!", "~", "^", "A", "\t", "\x00", "é", "\x7f") + s[i+1:], "replace"
	case 2: // insert
		i := rapid.IntRange(0, len(s)).Draw(rt, "ci")
		return s[:i] + gen.Pick(rt, "cv", "x", "*", "|", "||", "/", ":", "=", "<", ">", "!", "\t", "\n", "\x00", "é", "\xff", "٣", "*|") + s[i:], "insert"
	case 3: // case change in the scheme
		if k > 5 {
			i := rapid.IntRange(5, k-1).Draw(rt, "ci")
			return s[:i] + strings.ToUpper(s[i:i+1]) + s[i+1:], "scheme-case"
		}
	case 4: // near-miss scheme
		if k > 0 {
			return "vers:" + gen.Pick(rt, "nm", nearMissSchemes...) + s[k:], "near-miss-scheme"
		}
	case 5: // prefix mangling
		return gen.Pick(rt, "pm", "ver:", "VERS:", "vers", "vers::", " vers:", "pkg:", "", "vers;") + strings.TrimPrefix(s, "vers:"), "prefix"
	case 6: // drop the slash
		if k > 0 {
			return s[:k] + s[k+1:], "no-slash"
		}
	case 7: // operator mangling
		for _, op := range []string{">=", "<=", "!=", ">", "<", "="} {
			if i := strings.Index(s, op); i > k {
				return s[:i] + gen.Pick(rt, "om", "=>", "=<", "~", "^", "", "==", "<>", "!", ">>", "~=") + s[i+len(op):], "operator"
			}
		}
	case 8: // drop all constraints
		if k > 0 {
			return s[:k+1] + gen.Pick(rt, "dc", "", "|", " ", " | | "), "no-constraints"
		}
	case 9: // star next to other constraints / repeated
		return s + gen.Pick(rt, "st", "|*", "|*|*", "| * "), "star"
	case 10: // version emptied
		for _, op := range []string{">=", "<=", "!=", ">", "<", "="} {
			if i := strings.Index(s, op); i > k {
				j := strings.Index(s[i:], "|")
				if j < 0 {
					return s[:i+len(op)], "no-version"
				}
				return s[:i+len(op)] + s[i+j:], "no-version"
			}
		}
	}
	i := rapid.IntRange(0, len(s)).Draw(rt, "ci2")
	return s[:i] + "\x01" + s[i:], "insert"
}

// c17Cross evaluates the same constraint text under several schemes one after
// the other in one process: whatever an earlier call left behind (a cache, a
// memo) must not leak into a call for another scheme. Every call is judged by
// the stateless oracles above.
func c17Cross(t *testing.T, r *runner) {
	rapid.Check(t, func(rt *rapid.T) {
		first := gen.Pick(rt, "s1", eco.SchemeNames...)
		e1 := eco.ByName(eco.Schemes[first])
		bound := gen.Version(rt, e1.Name, "b")
		if !versBoundOK(bound) {
			return
		}
		probe := bound
		if gen.Chance(rt, "nb", 3, 4) {
			probe = gen.Neighbor(rt, e1, bound, "p")
		}
		op := gen.Pick(rt, "op", allVersOps...)
		n := rapid.IntRange(2, 4).Draw(rt, "n")
		schemes := []string{first}
		for i := 1; i < n; i++ {
			schemes = append(schemes, gen.Pick(rt, fmt.Sprintf("s%d", i+1), eco.SchemeNames...))
		}
		if gen.Chance(rt, "firstLast", 1, 3) {
			schemes = append(schemes[1:], first)
		}
		differs := false
		for _, sc := range schemes {
			e := eco.ByName(eco.Schemes[sc])
			_, err1 := e.NewVersion(bound)
			_, err2 := e.NewVersion(probe)
			var kc known.Case
			if err1 == nil && err2 == nil {
				kc = known.Case{Check: "routes", Eco: sc, Inputs: []string{sc, op, bound, probe}}
			} else {
				kc = known.Case{Check: "rejects", Eco: sc, Inputs: []string{"vers:" + sc + "/" + op + bound, probe}}
				differs = true
			}
			r.check(rt, kc)
		}
		if differs && len(schemes) > 1 {
			r.ev.NonTrivial("cross/same-text-valid-in-one-scheme-invalid-in-another", func() any { return map[string]any{"schemes": schemes, "constraint": op + bound, "probe": probe} }, append(append([]string{"cross"}, schemes...), op, bound, probe)...)
		} else {
			r.ev.NonTrivial("cross/same-text-several-schemes", func() any { return map[string]any{"schemes": schemes, "constraint": op + bound, "probe": probe} }, append(append([]string{"cross"}, schemes...), op, bound, probe)...)
		}
	})
}

func TestC17(t *testing.T) {
	r := newRunner(t, "C17")
	if envEco == "cross" {
		c17Cross(t, r)
		return
	}
	for _, scheme := range schemesFor(t) {
		scheme := scheme
		e := eco.ByName(eco.Schemes[scheme])
		rapid.Check(t, func(rt *rapid.T) {
			switch rapid.IntRange(0, 2).Draw(rt, "which") {
			case 0, 1: // (a) corruption
				cs, probes, ok := versCase(rt, r, scheme)
				if !ok {
					return
				}
				text := model.VersText(scheme, cs)
				probe := probes[rapid.IntRange(0, len(probes)-1).Draw(rt, "pi")]
				kind := "valid"
				switch rapid.IntRange(0, 7).Draw(rt, "mode") {
				case 6: // the very same (mostly invalid) string as the only bound and as the probe
					x := probe
					if gen.Chance(rt, "sameForeign", 1, 2) {
						other := eco.All[rapid.IntRange(0, len(eco.All)-1).Draw(rt, "so")]
						x = gen.Version(rt, other.Name, "sv")
					} else {
						x = gen.Corrupt(rt, probe, "sc")
					}
					if versBoundOK(x) {
						text = "vers:" + scheme + "/" + gen.Pick(rt, "sop", "=", "=", ">=", "<=", "!=") + x
						probe = x
						kind = "same-string-bound-and-probe"
					}
				case 7: // white space inside the probe (VERS drops it from constraints, never from the probe)
					if len(probe) > 1 {
						i := rapid.IntRange(1, len(probe)-1).Draw(rt, "wi")
						probe = probe[:i] + gen.Pick(rt, "wc", " ", "  ", "\t") + probe[i:]
						kind = "blank-inside-probe"
					}
				case 0: // a version of another ecosystem as probe
					other := eco.All[rapid.IntRange(0, len(eco.All)-1).Draw(rt, "oe")]
					probe = gen.Version(rt, other.Name, "op")
					kind = "foreign-probe"
				case 1: // a version of another ecosystem as bound
					other := eco.All[rapid.IntRange(0, len(eco.All)-1).Draw(rt, "oe")]
					fv := gen.Version(rt, other.Name, "ob")
					if versBoundOK(fv) {
						i := rapid.IntRange(0, len(cs)-1).Draw(rt, "oi")
						cs2 := append([]model.VC{}, cs...)
						cs2[i].V = fv
						text = model.VersText(scheme, cs2)
						kind = "foreign-bound"
					}
				case 2: // corrupted probe
					probe = gen.Corrupt(rt, probe, "cp")
					kind = "corrupt-probe"
				default:
					text, kind = corruptVers(rt, text)
				}
				kc := known.Case{Check: "rejects", Eco: scheme, Inputs: []string{text, probe}}
				if r.check(rt, kc) {
					if why := model.VersIllFormed(text, probe); len(why) == 1 {
						reason := why[0]
						if i := strings.Index(reason, ":"); i > 0 {
							reason = reason[:i]
						}
						r.ev.NonTrivial(scheme+"/"+kind+"/"+reason, func() any { return kc.Inputs }, kc.Key()...)
					} else if len(why) == 0 {
						r.ev.Class(scheme + "/corruption-still-well-formed")
					}
				}
			default: // (b) routing
				bound := gen.Version(rt, e.Name, "rb")
				if !versBoundOK(bound) {
					return
				}
				probe := bound
				if gen.Chance(rt, "rnb", 3, 4) {
					probe = gen.Neighbor(rt, e, bound, "rp")
				}
				op := gen.Pick(rt, "rop", allVersOps...)
				kc := known.Case{Check: "routes", Eco: scheme, Inputs: []string{scheme, op, bound, probe}}
				if !r.check(rt, kc) {
					return
				}
				// discriminating: another ecosystem rejects one of the strings or orders them differently
				bv, err0 := e.NewVersion(bound)
				pv, err := e.NewVersion(probe)
				if err != nil || err0 != nil {
					return
				}
				mine := sign(pv.Compare(bv))
				disc := 0
				for _, o := range eco.All {
					if o.Name == e.Name {
						continue
					}
					ob, e1 := o.NewVersion(bound)
					op2, e2 := o.NewVersion(probe)
					if e1 != nil || e2 != nil || sign(op2.Compare(ob)) != mine {
						disc++
					}
				}
				if disc > 0 {
					r.ev.NonTrivial(scheme+"/routes-discriminating", func() any { return kc.Inputs }, kc.Key()...)
				}
			}
		})
	}
}
