package props

import (
	"fmt"
	"regexp"
	"strconv"
	"strings"
	"testing"

	"pgregory.net/rapid"

	"verifharness/eco"
	"verifharness/gen"
	"verifharness/known"
	"verifharness/model"
)

// C03 — numbers order numerically; pre-release < release < post-release.
//   tuple: inputs [a, b]           plain dotted numerics of the same arity
//   pre:   inputs [v, marker]      v+marker must be strictly older than v
//   post:  inputs [v, marker]      v+marker must be strictly newer than v

var c03Arity = map[string][2]int{
	"alpine": {1, 5}, "alpm": {1, 5}, "conan": {1, 5}, "debian": {1, 5}, "gem": {1, 5}, "maven": {1, 5}, "pypi": {1, 5},
	"rpm": {1, 5}, "gentoo": {1, 5}, "nuget": {1, 4}, "composer": {1, 4}, "cran": {2, 5},
	"apache": {3, 3}, "cargo": {3, 3}, "github": {3, 3}, "golang": {3, 3}, "hex": {2, 3}, "mattermost": {3, 3}, "npm": {3, 3}, "semver": {3, 3},
}

var semPre = []string{"-alpha", "-alpha.1", "-rc.1", "-rc1", "-0", "-beta.2", "-x", "-ALPHA", "-RC.1", "-Beta2"}

// marker tables: built from the parsers, every spelling is accepted on the
// tree the harness was developed against (checked by TestSelfMarkers).
var c03Pre = map[string][]string{
	"alpine":   {"_alpha", "_beta", "_pre", "_rc", "_alpha1", "_beta2", "_pre3", "_rc1"},
	"alpm":     {"alpha", "beta", "pre", "rc", "alpha1", "beta2", "pre3", "rc1", "RC1", "Beta2", "ALPHA", "a", "Rc"},
	"apache":   {"-alpha", "-beta", "-M1", "-RC1", "-rc1", "-SNAPSHOT", "-dev", "-beta2", "-milestone2", "-ALPHA", "-Beta1", "-snapshot", "-m2", "-Milestone3", "-DEV"},
	"cargo":    semPre,
	"composer": {"-alpha1", "-beta2", "-RC1", "-rc1", "a1", "b2", "RC3", "-dev", "-alpha", "-beta.1"},
	"conan":    {"-alpha", "-rc.1", "-beta.2", "-0", "-ALPHA", "-RC.1"},
	"debian":   {"~rc1", "~beta1", "~", "~~", "~alpha", "~RC1", "~Beta"},
	"gem":      {".rc1", ".pre", ".a", "-rc1", "-alpha", ".beta2", ".rc", ".RC1", ".PRE", "-Alpha", "-1", "-0", "-10", "-0.1", "-1.rc", "-2.3"}, // '-' is '.pre.'

	"gentoo":     {"_alpha", "_beta", "_pre", "_rc", "_alpha1", "_beta2", "_pre3", "_rc1"},
	"github":     {"-alpha", "-beta.1", "-rc.2", ".rc1", "-SNAPSHOT", "-dev", "-rc1", "-ALPHA", "-RC.1", "-Beta2", "-snapshot", ".DEV"},
	"golang":     semPre,
	"hex":        semPre,
	"mattermost": {"-rc1", "-rc", "-rc2"},
	"maven":      {"-alpha-1", "-a1", "-beta-2", "-M1", "-milestone-1", "-rc1", "-RC1", "-cr1", "-SNAPSHOT", "-alpha", ".beta1", "-rc-2", "-ALPHA-1", "-Rc1", "-snapshot", "-m2", "-CR2", "-b3", ".A1", "-Beta"},
	"npm":        semPre,
	"nuget":      semPre,
	"pypi":       {"a1", "b2", "rc1", "c1", "alpha1", ".dev1", "beta3", ".a1", "dev0"},
	"rpm":        {"~rc1", "~beta", "~", "~~", "~1", "~RC1", "~Beta"},
	"semver":     semPre,
}

var c03Post = map[string][]string{
	"alpine":   {"_p1", "_git1", "_svn1", "_cvs1", "_hg1", "-r1", "-r2", "_p", "_p2"},
	"composer": {"-patch1", "pl1", "-patch2", "pl2"},
	"debian":   {"-1", "+b1", "+dfsg", "-2", "-1ubuntu1", "-0.1"},
	"gentoo":   {"_p1", "_p", "-r1", "-r2", "_p2"},
	"maven":    {"-sp", "-sp1", "-1", "-2", "-sp-1", "-SP", "-Sp1"},
	"nuget":    {".1", ".2", ".10"},
	"pypi":     {".post1", "post1", ".rev1", ".r1", ".post0", ".post1.dev1", ".post0.dev0", "r1dev1"}, // a dev release of a post-release is still after the release
	"rpm":      {"-1", "^git1", "-2", "^1", "-1.el8"},
}

var dateShape = regexp.MustCompile(`^[0-9]{4}\.[0-9]{1,2}\.[0-9]{1,2}$`)

// githubDate: ok=false if s is not date-shaped; valid = calendar ranges hold.
func githubDate(s string) (isDate, valid bool) {
	if !dateShape.MatchString(s) {
		return false, false
	}
	p := strings.Split(s, ".")
	m, _ := strconv.Atoi(p[1])
	d, _ := strconv.Atoi(p[2])
	return true, m >= 1 && m <= 12 && d >= 1 && d <= 31
}

func tupleCompare(a, b string) int {
	x, y := strings.Split(a, "."), strings.Split(b, ".")
	for i := 0; i < len(x) && i < len(y); i++ {
		if c := model.CmpNumStr(x[i], y[i]); c != 0 {
			return c
		}
	}
	return 0
}

var plainDotted = regexp.MustCompile(`^(0|[1-9][0-9]*)(\.(0|[1-9][0-9]*))*$`)

func c03ArityOK(ecoName, v string) bool {
	ar, ok := c03Arity[ecoName]
	n := strings.Count(v, ".") + 1
	return ok && plainDotted.MatchString(v) && n >= ar[0] && n <= ar[1]
}

func contains(xs []string, s string) bool {
	for _, x := range xs {
		if x == s {
			return true
		}
	}
	return false
}

func init() {
	registerCheck("C03", "tuple", func(c known.Case) (bool, string) {
		e := eco.ByName(c.Eco)
		a, b := c.Inputs[0], c.Inputs[1]
		if !c03ArityOK(c.Eco, a) || !c03ArityOK(c.Eco, b) || strings.Count(a, ".") != strings.Count(b, ".") {
			return false, "out of domain"
		}
		if c.Eco == "github" {
			da, va := githubDate(a)
			db, vb := githubDate(b)
			if (da && !va) || (db && !vb) || da != db {
				return false, "github date-shaped inputs are only compared among themselves (and only claimed accepted within calendar ranges)"
			}
		}
		va, err1 := e.NewVersion(a)
		vb, err2 := e.NewVersion(b)
		if err1 != nil || err2 != nil {
			return true, fmt.Sprintf("plain dotted-numeric version rejected: %v %v", err1, err2)
		}
		want := tupleCompare(a, b)
		if got := va.Compare(vb); got != want {
			return true, fmt.Sprintf("Compare(%q,%q)=%d, integer tuples give %d", a, b, got, want)
		}
		if got := vb.Compare(va); got != -want {
			return true, fmt.Sprintf("Compare(%q,%q)=%d, integer tuples give %d", b, a, got, -want)
		}
		return false, ""
	})
	marker := func(kind string, table map[string][]string, want int) {
		registerCheck("C03", kind, func(c known.Case) (bool, string) {
			e := eco.ByName(c.Eco)
			v, m := c.Inputs[0], c.Inputs[1]
			if !c03ArityOK(c.Eco, v) || !contains(table[c.Eco], m) {
				return false, "out of domain"
			}
			if c.Eco == "github" {
				if d, _ := githubDate(v); d {
					return false, "a marked date string is not claimed"
				}
			}
			if c.Eco == "nuget" && kind == "post" && strings.Count(v, ".") != 2 {
				return false, "nuget's fourth component needs a three-component base"
			}
			if c.Eco == "hex" && strings.Count(v, ".") != 2 {
				return false, "hex accepts a pre-release part only on a three-component version"
			}
			base, err1 := e.NewVersion(v)
			marked, err2 := e.NewVersion(v + m)
			if err1 != nil || err2 != nil {
				return true, fmt.Sprintf("%q or %q rejected: %v %v", v, v+m, err1, err2)
			}
			if got := marked.Compare(base); got != want {
				return true, fmt.Sprintf("Compare(%q,%q)=%d, want %d", v+m, v, got, want)
			}
			if got := base.Compare(marked); got != -want {
				return true, fmt.Sprintf("Compare(%q,%q)=%d, want %d", v, v+m, got, -want)
			}
			return false, ""
		})
	}
	marker("pre", c03Pre, -1)
	marker("post", c03Post, 1)
}

func c03Num(rt *rapid.T, l string) string {
	k := rapid.IntRange(0, 9).Draw(rt, l+"k")
	switch {
	case k < 4:
		return gen.Pick(rt, l, "0", "1", "2", "9", "10", "11", "99", "100", "999", "1000", "65535", "2147483647", "2147483648", "2147483646")
	case k < 8:
		return gen.Pick(rt, l, "0", "1", "2", "3", "5", "9", "10")
	default:
		return strconv.Itoa(rapid.IntRange(0, 1<<31-1).Draw(rt, l))
	}
}

func c03Tuple(rt *rapid.T, l string, n int) string {
	p := make([]string, n)
	for i := range p {
		p[i] = c03Num(rt, fmt.Sprintf("%s%d", l, i))
	}
	return strings.Join(p, ".")
}

func TestC03(t *testing.T) {
	r := newRunner(t, "C03")
	for _, e := range ecosFor(t) {
		e := e
		ar := c03Arity[e.Name]
		rapid.Check(t, func(rt *rapid.T) {
			n := rapid.IntRange(ar[0], ar[1]).Draw(rt, "arity")
			a := c03Tuple(rt, "a", n)
			switch rapid.IntRange(0, 3).Draw(rt, "kind") {
			case 0, 1:
				var b string
				if gen.Chance(rt, "nb", 2, 3) {
					p := strings.Split(a, ".")
					i := rapid.IntRange(0, n-1).Draw(rt, "ci")
					p[i] = c03Num(rt, "cv")
					b = strings.Join(p, ".")
				} else {
					b = c03Tuple(rt, "b", n)
				}
				kc := known.Case{Check: "tuple", Eco: e.Name, Inputs: []string{a, b}}
				if r.check(rt, kc) && strings.Split(a, ".")[0] == strings.Split(b, ".")[0] && a != b {
					r.ev.NonTrivial(fmt.Sprintf("%s/tuple/arity%d", e.Name, n), func() any { return kc.Inputs }, kc.Key()...)
				}
			case 2:
				ms := c03Pre[e.Name]
				if len(ms) == 0 {
					r.ev.Count("no_pre_marker_for_ecosystem", 1)
					return
				}
				m := gen.Pick(rt, "pm", ms...)
				kc := known.Case{Check: "pre", Eco: e.Name, Inputs: []string{a, m}}
				if r.check(rt, kc) {
					r.ev.NonTrivial(e.Name+"/pre/"+m, func() any { return kc.Inputs }, kc.Key()...)
				}
			default:
				ms := c03Post[e.Name]
				if len(ms) == 0 {
					r.ev.Count("no_post_marker_for_ecosystem", 1)
					return
				}
				m := gen.Pick(rt, "qm", ms...)
				kc := known.Case{Check: "post", Eco: e.Name, Inputs: []string{a, m}}
				if r.check(rt, kc) {
					r.ev.NonTrivial(e.Name+"/post/"+m, func() any { return kc.Inputs }, kc.Key()...)
				}
			}
		})
	}
}
