package props

import (
	"fmt"
	"regexp"
	"slices"
	"strings"
	"testing"

	"github.com/alowayed/go-univers/pkg/spec/vers"
	"pgregory.net/rapid"

	"verifharness/eco"
	"verifharness/gen"
	"verifharness/known"
)

// C15 — the CLI is a faithful front end for the library.
// check "cli": inputs = the argument vector

var resultToken = regexp.MustCompile(`^(-1|0|1|true|false)$`)

// cliExpect computes what the CLI must print for args from the library:
// ok=true -> exit 0 and stdout == want (for sort: wantSorted, compared class-wise);
// ok=false -> exit 1 and a diagnostic that is not a result.
func cliExpect(args []string) (ok bool, want string, sorted []eco.Ver, e *eco.Eco) {
	if len(args) < 2 {
		return false, "", nil, nil
	}
	name, cmd, rest := args[0], args[1], args[2:]
	if name == "vers" {
		if cmd != "contains" || len(rest) != 2 {
			return false, "", nil, nil
		}
		got, err := vers.Contains(rest[0], rest[1])
		if err != nil {
			return false, "", nil, nil
		}
		return true, fmt.Sprintf("%t", got), nil, nil
	}
	var ec *eco.Eco
	for i := range eco.All {
		if eco.All[i].Name == name {
			ec = &eco.All[i]
		}
	}
	// the name must be one of the 20 documented names (independent list)
	known := false
	for _, n := range eco.Names {
		if n == name {
			known = true
		}
	}
	if ec == nil || !known {
		return false, "", nil, nil
	}
	switch cmd {
	case "compare":
		if len(rest) != 2 {
			return false, "", nil, ec
		}
		a, err1 := ec.NewVersion(rest[0])
		b, err2 := ec.NewVersion(rest[1])
		if err1 != nil || err2 != nil {
			return false, "", nil, ec
		}
		return true, fmt.Sprintf("%d", a.Compare(b)), nil, ec
	case "contains":
		if len(rest) != 2 {
			return false, "", nil, ec
		}
		r, err1 := ec.NewRange(rest[0])
		v, err2 := ec.NewVersion(rest[1])
		if err1 != nil || err2 != nil {
			return false, "", nil, ec
		}
		return true, fmt.Sprintf("%t", r.Contains(v)), nil, ec
	case "sort":
		if len(rest) == 0 {
			return false, "", nil, ec
		}
		vs := make([]eco.Ver, len(rest))
		for i, s := range rest {
			v, err := ec.NewVersion(s)
			if err != nil {
				return false, "", nil, ec
			}
			vs[i] = v
		}
		slices.SortFunc(vs, func(a, b eco.Ver) int { return a.Compare(b) })
		return true, "", vs, ec
	}
	return false, "", nil, ec
}

func init() {
	registerCheck("C15", "cli", func(c known.Case) (bool, string) {
		if cliPath() == "" {
			return false, "no CLI binary"
		}
		args := c.Inputs
		for _, a := range args {
			if strings.Contains(a, "\x00") {
				return false, "NUL cannot be passed in an argument vector"
			}
		}
		ok, want, sorted, e := cliExpect(args)
		so, se, exit, err := runCLI(args)
		if err != nil {
			return false, "cannot start the CLI"
		}
		line := strings.TrimSuffix(so, "\n")
		if !ok {
			// the diagnostic may go to stdout or stderr
			if exit != 1 {
				return true, fmt.Sprintf("the library rejects this invocation but the CLI exited %d with %q", exit, truncate(so, 200))
			}
			if resultToken.MatchString(line) {
				return true, fmt.Sprintf("exit 1 but stdout is a result token: %q", line)
			}
			if strings.TrimSpace(so+se) == "" {
				return true, "exit 1 without a diagnostic"
			}
			return false, ""
		}
		if se != "" {
			return true, fmt.Sprintf("successful invocation wrote to stderr: %q", truncate(se, 200))
		}
		if exit != 0 {
			return true, fmt.Sprintf("the library accepts this invocation but the CLI exited %d with %q", exit, truncate(so, 200))
		}
		if !strings.HasSuffix(so, "\n") || strings.Count(so, "\n") != 1 {
			return true, fmt.Sprintf("stdout is not exactly one line: %q", truncate(so, 200))
		}
		if sorted == nil {
			if line != want {
				return true, fmt.Sprintf("CLI printed %q, the library gives %q", line, want)
			}
			return false, ""
		}
		// sort: the quoted inputs, as a multiset, in library order class by class
		items, perr := parseQuotedList(line)
		if perr != "" {
			return true, perr
		}
		var trimmedIn []string
		for _, s := range args[2:] {
			trimmedIn = append(trimmedIn, strings.TrimSpace(s))
		}
		var trimmedOut []string
		for _, s := range items {
			trimmedOut = append(trimmedOut, strings.TrimSpace(s))
		}
		if !sameMultiset(trimmedIn, trimmedOut) {
			return true, fmt.Sprintf("sort printed %q for inputs %q", items, args[2:])
		}
		if why := c07Excluded(*e, args[2:]); why != "" {
			return false, "order not claimed: " + why
		}
		for i, s := range items {
			v, err := e.NewVersion(s)
			if err != nil {
				return true, fmt.Sprintf("sort printed %q which the library rejects", s)
			}
			if v.Compare(sorted[i]) != 0 {
				return true, fmt.Sprintf("sort position %d holds %q, the library order has %q there", i, s, sorted[i].String())
			}
		}
		return false, ""
	})
}

// near-miss names: misspellings only (a plausible future alias or sub-command such as "version" or "deb" is not used,
// adding one would be a legitimate change)
var c15NearMiss = []string{"NPM", "Npm", "npmm", "np", "mavn", "pypy", "golan", "debiann", "rubygem", "", "npm ", "vers2", "VERS", "alpine2", "maven3", "xyzzy"}

func c15Arg(rt *rapid.T, e eco.Eco, l string, wantRange bool) string {
	switch rapid.IntRange(0, 11).Draw(rt, l+"k") {
	case 0, 1, 2, 3, 4, 5:
		if wantRange {
			base := gen.Version(rt, e.Name, l+"b")
			if ri, ok := gen.DrawAnyRange(rt, e, base, l+"r"); ok {
				return ri.Text
			}
			return base
		}
		return gen.Version(rt, e.Name, l+"v")
	case 6:
		o := eco.All[rapid.IntRange(0, len(eco.All)-1).Draw(rt, l+"oe")]
		return gen.Version(rt, o.Name, l+"ov")
	case 7:
		return strings.ReplaceAll(hostile(rt, l+"h"), "\x00", "")
	case 8:
		return gen.Pick(rt, l+"s", "", " ", "\"1.0\"", "'1.0'", "-1", "--version", "-", "1.0 2.0", "1.0\n", "\t1.0")
	case 9:
		return " " + gen.Version(rt, e.Name, l+"v") + gen.Pick(rt, l+"pad", " ", "\n", "")
	default:
		return gen.Version(rt, e.Name, l+"v")
	}
}

func TestC15(t *testing.T) {
	if cliPath() == "" {
		t.Fatalf("HARNESS-ERROR: VERIF_CLI not set")
	}
	r := newRunner(t, "C15")
	var units []eco.Eco
	doVers := envEco == "" || envEco == "vers"
	if envEco != "vers" {
		units = ecosFor(t)
	}
	one := func(rt *rapid.T, args []string, cell string) {
		for _, a := range args {
			if strings.Contains(a, "\x00") {
				return
			}
		}
		kc := known.Case{Check: "cli", Eco: "cli", Inputs: args}
		if r.check(rt, kc) {
			if ok, _, _, _ := cliExpect(args); ok {
				r.ev.NonTrivial("success/"+cell, func() any { return args }, append([]string{"cli"}, args...)...)
			} else {
				r.ev.Class("diagnostic/" + cell)
			}
		}
	}
	for _, e := range units {
		e := e
		rapid.Check(t, func(rt *rapid.T) {
			name := e.Name
			if gen.Chance(rt, "nearmiss", 1, 12) {
				name = gen.Pick(rt, "nm", c15NearMiss...)
			}
			cmd := gen.Pick(rt, "cmd", "compare", "compare", "sort", "sort", "contains", "contains", "nope", "Compare", "")
			var args []string
			arity := map[string]int{"compare": 2, "contains": 2}[cmd]
			if cmd == "sort" {
				arity = rapid.IntRange(1, 5).Draw(rt, "sn")
			}
			if gen.Chance(rt, "wrongArity", 1, 8) {
				arity = rapid.IntRange(0, 5).Draw(rt, "wa")
			}
			for i := 0; i < arity; i++ {
				args = append(args, c15Arg(rt, e, fmt.Sprintf("a%d", i), cmd == "contains" && i == 0))
			}
			full := append([]string{name, cmd}, args...)
			if gen.Chance(rt, "dropcmd", 1, 30) {
				full = full[:1]
			}
			one(rt, full, e.Name+"/"+cmd)
		})
	}
	if doVers {
		rapid.Check(t, func(rt *rapid.T) {
			scheme := gen.Pick(rt, "sc", eco.SchemeNames...)
			e := eco.ByName(eco.Schemes[scheme])
			cs, probes, ok := versCase(rt, r, scheme)
			if !ok {
				return
			}
			rng := "vers:" + scheme + "/" + joinVC(cs)
			probe := probes[rapid.IntRange(0, len(probes)-1).Draw(rt, "pi")]
			switch rapid.IntRange(0, 7).Draw(rt, "mode") {
			case 0:
				rng = gen.Corrupt(rt, rng, "cr")
			case 1:
				probe = c15Arg(rt, e, "hp", false)
			}
			rng = strings.ReplaceAll(rng, "\x00", "")
			args := []string{"vers", gen.Pick(rt, "vc", "contains", "contains", "contains", "contains", "compare", "sort", ""), rng, probe}
			if gen.Chance(rt, "arity", 1, 10) {
				args = args[:rapid.IntRange(1, 3).Draw(rt, "an")]
			}
			one(rt, args, "vers/"+args[minInt(1, len(args)-1)])
		})
	}
}

func minInt(a, b int) int {
	if a < b {
		return a
	}
	return b
}
