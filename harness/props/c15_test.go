package props

import (
	"fmt"
	"regexp"
	"slices"
	"strconv"
	"strings"
	"testing"

	"github.com/alowayed/go-univers/pkg/spec/vers"
	"pgregory.net/rapid"

	"verifharness/eco"
	"verifharness/gen"
	"verifharness/known"
)

// C15 — the CLI is a faithful front end for the library.
// check "cli": inputs = the argument vector

var resultToken = regexp.MustCompile(`^(-1|0|1|true|false)$`)

// cliExpect computes what the CLI must print for args from the library:
// ok=true -> exit 0 and stdout == want (for sort: wantSorted, compared class-wise);
// ok=false -> exit 1 and a diagnostic that is not a result.
func cliExpect(args []string) (ok bool, want string, sorted []eco.Ver, e *eco.Eco) {
	if len(args) < 2 {
		return false, "", nil, nil
	}
	name, cmd, rest := args[0], args[1], args[2:]
	if name == "vers" {
		if cmd != "contains" || len(rest) != 2 {
			return false, "", nil, nil
		}
		got, err := vers.Contains(rest[0], rest[1])
		if err != nil {
			return false, "", nil, nil
		}
		return true, fmt.Sprintf("%t", got), nil, nil
	}
	var ec *eco.Eco
	for i := range eco.All {
		if eco.All[i].Name == name {
			ec = &eco.All[i]
		}
	}
	// the name must be one of the 20 documented names (independent list)
	known := false
	for _, n := range eco.Names {
		if n == name {
			known = true
		}
	}
	if ec == nil || !known {
		return false, "", nil, nil
	}
	switch cmd {
	case "compare":
		if len(rest) != 2 {
			return false, "", nil, ec
		}
		a, err1 := ec.NewVersion(rest[0])
		b, err2 := ec.NewVersion(rest[1])
		if err1 != nil || err2 != nil {
			return false, "", nil, ec
		}
		return true, fmt.Sprintf("%d", a.Compare(b)), nil, ec
	case "contains":
		if len(rest) != 2 {
			return false, "", nil, ec
		}
		r, err1 := ec.NewRange(rest[0])
		v, err2 := ec.NewVersion(rest[1])
		if err1 != nil || err2 != nil {
			return false, "", nil, ec
		}
		return true, fmt.Sprintf("%t", r.Contains(v)), nil, ec
	case "sort":
		if len(rest) == 0 {
			return false, "", nil, ec
		}
		vs := make([]eco.Ver, len(rest))
		for i, s := range rest {
			v, err := ec.NewVersion(s)
			if err != nil {
				return false, "", nil, ec
			}
			vs[i] = v
		}
		slices.SortFunc(vs, func(a, b eco.Ver) int { return a.Compare(b) })
		return true, "", vs, ec
	}
	return false, "", nil, ec
}

func init() {
	registerCheck("C15", "cli", func(c known.Case) (bool, string) {
		if cliPath() == "" {
			return false, "no CLI binary"
		}
		args := c.Inputs
		for _, a := range args {
			if strings.Contains(a, "\x00") {
				return false, "NUL cannot be passed in an argument vector"
			}
		}
		ok, want, sorted, e := cliExpect(args)
		so, se, exit, err := runCLI(args)
		if err != nil {
			return false, "cannot start the CLI"
		}
		line := strings.TrimSuffix(so, "\n")
		if !ok {
			// the diagnostic may go to stdout or stderr
			if exit != 1 {
				return true, fmt.Sprintf("the library rejects this invocation but the CLI exited %d with %q", exit, truncate(so, 200))
			}
			if resultToken.MatchString(line) {
				return true, fmt.Sprintf("exit 1 but stdout is a result token: %q", line)
			}
			if strings.TrimSpace(so+se) == "" {
				return true, "exit 1 without a diagnostic"
			}
			return false, ""
		}
		if se != "" {
			return true, fmt.Sprintf("successful invocation wrote to stderr: %q", truncate(se, 200))
		}
		if exit != 0 {
			return true, fmt.Sprintf("the library accepts this invocation but the CLI exited %d with %q", exit, truncate(so, 200))
		}
		if !strings.HasSuffix(so, "\n") || strings.Count(so, "\n") != 1 {
			return true, fmt.Sprintf("stdout is not exactly one line: %q", truncate(so, 200))
		}
		if sorted == nil {
			if line != want {
				return true, fmt.Sprintf("CLI printed %q, the library gives %q", line, want)
			}
			return false, ""
		}
		// sort: the quoted inputs, as a multiset, in library order class by class
		items, perr := parseQuotedList(line)
		if perr != "" {
			return true, perr
		}
		// "the quoted inputs": element for element either the library's String() of each parsed input (what a front end of
		// the library prints) or the raw argument text; printing one input twice and dropping another is neither
		var libStrings []string
		for _, v := range sorted {
			libStrings = append(libStrings, v.String())
		}
		if !sameMultiset(items, libStrings) && !sameMultiset(items, args[2:]) {
			return true, fmt.Sprintf("sort printed %q for inputs %q (library strings %q)", items, args[2:], libStrings)
		}
		if why := c07Excluded(*e, args[2:]); why != "" {
			return false, "order not claimed: " + why
		}
		for i, s := range items {
			v, err := e.NewVersion(s)
			if err != nil {
				return true, fmt.Sprintf("sort printed %q which the library rejects", s)
			}
			if v.Compare(sorted[i]) != 0 {
				return true, fmt.Sprintf("sort position %d holds %q, the library order has %q there", i, s, sorted[i].String())
			}
		}
		return false, ""
	})
}

// near-miss names: misspellings only (a plausible future alias or sub-command such as "version" or "deb" is not used,
// adding one would be a legitimate change)
var c15NearMiss = []string{"NPM", "Npm", "npmm", "np", "mavn", "pypy", "golan", "debiann", "rubygem", "", "npm ", "vers2", "VERS", "alpine2", "maven3", "xyzzy"}

// encodeSome rewrites 1-3 characters of s (or all of them) in an encoding that a front end might be tempted to decode:
// URI percent escapes, Go/C backslash escapes, HTML entities. The library takes every string literally, so must the CLI.
func encodeSome(rt *rapid.T, s, l string) string {
	if s == "" {
		return s
	}
	enc := func(c byte) string {
		switch rapid.IntRange(0, 4).Draw(rt, l+"enc") {
		case 0:
			return fmt.Sprintf("%%%02X", c)
		case 1:
			return fmt.Sprintf("%%%02x", c)
		case 2:
			return fmt.Sprintf("\\x%02x", c)
		case 3:
			return fmt.Sprintf("&#%d;", c)
		default:
			return fmt.Sprintf("%%%02X", c)
		}
	}
	if gen.Chance(rt, l+"all", 1, 6) {
		var sb strings.Builder
		for i := 0; i < len(s); i++ {
			if c := s[i]; (c >= '0' && c <= '9') || (c >= 'a' && c <= 'z') || (c >= 'A' && c <= 'Z') || c == '.' || c == '/' || c == ':' {
				sb.WriteByte(c)
			} else {
				sb.WriteString(fmt.Sprintf("%%%02X", c))
			}
		}
		return sb.String()
	}
	n := rapid.IntRange(1, 3).Draw(rt, l+"n")
	for k := 0; k < n && len(s) > 0; k++ {
		i := rapid.IntRange(0, len(s)-1).Draw(rt, fmt.Sprintf("%si%d", l, k))
		s = s[:i] + enc(s[i]) + s[i+1:]
	}
	return s
}

// operator and keyword words a command-line front end might be tempted to interpret
var c15Words = []string{"lt", "le", "eq", "ne", "ge", "gt", "and", "or", "to", "-", "--", "-h", "--help", "help", "version", "=", "==", "<", ">", "<=", ">=", "!=", "..", "..."}

func c15Arg(rt *rapid.T, e eco.Eco, l string, wantRange bool) string {
	switch rapid.IntRange(0, 14).Draw(rt, l+"k") {
	case 13:
		return gen.Pick(rt, l+"w", c15Words...)
	case 14:
		// a valid but very long argument (8 kB .. 100 kB): the library has no length limit, so the CLI has none either
		v := gen.Version(rt, e.Name, l+"v")
		target := gen.Pick(rt, l+"lt", "4097", "8191", "8192", "8193", "9000", "16385", "32769", "65535", "65536", "65537", "100000")
		n, _ := strconv.Atoi(target)
		long := gen.LengthenTo(rt, e, v, l+"ll", n)
		if wantRange {
			return gen.Pick(rt, l+"lop", ">=", "<=", "=", "") + long
		}
		return long
	case 12:
		if wantRange {
			base := gen.Version(rt, e.Name, l+"b")
			if ri, ok := gen.DrawAnyRange(rt, e, base, l+"r"); ok {
				return encodeSome(rt, ri.Text, l+"e")
			}
		}
		return encodeSome(rt, gen.Version(rt, e.Name, l+"v"), l+"e")
	case 0, 1, 2, 3, 4, 5:
		if wantRange {
			base := gen.Version(rt, e.Name, l+"b")
			if ri, ok := gen.DrawAnyRange(rt, e, base, l+"r"); ok {
				return ri.Text
			}
			return base
		}
		return gen.Version(rt, e.Name, l+"v")
	case 6:
		o := eco.All[rapid.IntRange(0, len(eco.All)-1).Draw(rt, l+"oe")]
		return gen.Version(rt, o.Name, l+"ov")
	case 7:
		return strings.ReplaceAll(hostile(rt, l+"h"), "\x00", "")
	case 8:
		return gen.Pick(rt, l+"s", "", " ", "\"1.0\"", "'1.0'", "-1", "--version", "-", "1.0 2.0", "1.0\n", "\t1.0")
	case 9:
		return " " + gen.Version(rt, e.Name, l+"v") + gen.Pick(rt, l+"pad", " ", "\n", "")
	default:
		return gen.Version(rt, e.Name, l+"v")
	}
}

func TestC15(t *testing.T) {
	if cliPath() == "" {
		t.Fatalf("HARNESS-ERROR: VERIF_CLI not set")
	}
	r := newRunner(t, "C15")
	var units []eco.Eco
	doVers := envEco == "" || envEco == "vers"
	if envEco != "vers" {
		units = ecosFor(t)
	}
	one := func(rt *rapid.T, args []string, cell string) {
		for _, a := range args {
			if strings.Contains(a, "\x00") {
				return
			}
		}
		kc := known.Case{Check: "cli", Eco: "cli", Inputs: args}
		if r.check(rt, kc) {
			if ok, _, _, _ := cliExpect(args); ok {
				r.ev.NonTrivial("success/"+cell, func() any { return args }, append([]string{"cli"}, args...)...)
			} else {
				r.ev.Class("diagnostic/" + cell)
			}
		}
	}
	for _, e := range units {
		e := e
		rapid.Check(t, func(rt *rapid.T) {
			name := e.Name
			if gen.Chance(rt, "nearmiss", 1, 12) {
				name = gen.Pick(rt, "nm", c15NearMiss...)
			}
			cmd := gen.Pick(rt, "cmd", "compare", "compare", "sort", "sort", "contains", "contains", "nope", "Compare", "")
			var args []string
			arity := map[string]int{"compare": 2, "contains": 2}[cmd]
			if cmd == "sort" {
				arity = rapid.IntRange(1, 5).Draw(rt, "sn")
			}
			if gen.Chance(rt, "wrongArity", 1, 8) {
				arity = rapid.IntRange(0, 5).Draw(rt, "wa")
			}
			for i := 0; i < arity; i++ {
				if cmd == "sort" && i > 0 && gen.Chance(rt, fmt.Sprintf("again%d", i), 1, 4) {
					// an earlier argument once more: identical, differently padded or as an equal-comparing other spelling
					prev := args[rapid.IntRange(0, i-1).Draw(rt, fmt.Sprintf("prev%d", i))]
					a := gen.Pick(rt, fmt.Sprintf("lp%d", i), "", "", " ", "\t", "  ") + strings.TrimSpace(prev) + gen.Pick(rt, fmt.Sprintf("rp%d", i), "", "", " ", "\n")
					if vars := gen.EqualVariants(e, strings.TrimSpace(prev)); len(vars) > 0 && gen.Chance(rt, fmt.Sprintf("var%d", i), 1, 3) {
						a = vars[rapid.IntRange(0, len(vars)-1).Draw(rt, fmt.Sprintf("vi%d", i))]
					}
					args = append(args, a)
					continue
				}
				args = append(args, c15Arg(rt, e, fmt.Sprintf("a%d", i), cmd == "contains" && i == 0))
			}
			full := append([]string{name, cmd}, args...)
			if gen.Chance(rt, "dropcmd", 1, 30) {
				full = full[:1]
			}
			one(rt, full, e.Name+"/"+cmd)
		})
	}
	if doVers {
		rapid.Check(t, func(rt *rapid.T) {
			scheme := gen.Pick(rt, "sc", eco.SchemeNames...)
			e := eco.ByName(eco.Schemes[scheme])
			cs, probes, ok := versCase(rt, r, scheme)
			if !ok {
				return
			}
			rng := "vers:" + scheme + "/" + joinVC(cs)
			probe := probes[rapid.IntRange(0, len(probes)-1).Draw(rt, "pi")]
			switch rapid.IntRange(0, 7).Draw(rt, "mode") {
			case 0:
				rng = gen.Corrupt(rt, rng, "cr")
			case 1:
				probe = c15Arg(rt, e, "hp", false)
			case 2:
				if gen.Chance(rt, "encwhat", 2, 3) {
					rng = "vers:" + scheme + "/" + encodeSome(rt, joinVC(cs), "er")
				} else {
					rng = encodeSome(rt, rng, "er")
				}
			}
			rng = strings.ReplaceAll(rng, "\x00", "")
			args := []string{"vers", gen.Pick(rt, "vc", "contains", "contains", "contains", "contains", "compare", "sort", ""), rng, probe}
			if gen.Chance(rt, "arity", 1, 10) {
				args = args[:rapid.IntRange(1, 3).Draw(rt, "an")]
			}
			one(rt, args, "vers/"+args[minInt(1, len(args)-1)])
		})
	}
}

func minInt(a, b int) int {
	if a < b {
		return a
	}
	return b
}
