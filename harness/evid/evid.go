// Package evid collects what a property run actually covered and writes it
// as a partial evidence file that the driver merges.
package evid

import (
	"encoding/binary"
	"encoding/json"
	"hash/fnv"
	"os"
	"sort"
	"sync"
)

const maxHashes = 6_000_000
const samplesPerClass = 4

// Rec is one process' evidence record.
type Rec struct {
	mu         sync.Mutex
	Property   string
	Shard      string
	evals      int64
	nt         map[uint64]struct{}
	ntCapped   bool
	classes    map[string]int64
	samples    map[string][]any
	excluded   map[string]int64
	counters   map[string]int64
	notes      map[string]any
	exhaustive bool
}

// New creates a record.
func New(property, shard string) *Rec {
	return &Rec{Property: property, Shard: shard, nt: map[uint64]struct{}{}, classes: map[string]int64{},
		samples: map[string][]any{}, excluded: map[string]int64{}, counters: map[string]int64{}, notes: map[string]any{}}
}

// Eval counts one executed property evaluation.
func (r *Rec) Eval() { r.mu.Lock(); r.evals++; r.mu.Unlock() }

// EvalN counts n evaluations.
func (r *Rec) EvalN(n int) { r.mu.Lock(); r.evals += int64(n); r.mu.Unlock() }

// Hash returns the 64-bit FNV-1a hash of the parts.
func Hash(parts ...string) uint64 {
	h := fnv.New64a()
	for _, p := range parts {
		h.Write([]byte(p))
		h.Write([]byte{0})
	}
	return h.Sum64()
}

// NonTrivial records a non-trivial case (identified by key parts) in a class;
// sample is only called when the case is kept as a sample.
func (r *Rec) NonTrivial(class string, sample func() any, key ...string) {
	r.mu.Lock()
	defer r.mu.Unlock()
	h := Hash(append([]string{r.Property}, key...)...)
	if _, ok := r.nt[h]; ok {
		return
	}
	if len(r.nt) < maxHashes {
		r.nt[h] = struct{}{}
	} else {
		r.ntCapped = true
	}
	r.classes[class]++
	if len(r.samples[class]) < samplesPerClass && sample != nil {
		r.samples[class] = append(r.samples[class], sample())
	}
}

// Class counts a case in a class histogram without the non-trivial set.
func (r *Rec) Class(class string) { r.mu.Lock(); r.classes[class]++; r.mu.Unlock() }

// Excluded counts a case that was skipped because it lies in a known-finding class.
func (r *Rec) Excluded(class string) { r.mu.Lock(); r.excluded[class]++; r.mu.Unlock() }

// Count bumps a free-form counter.
func (r *Rec) Count(name string, n int64) { r.mu.Lock(); r.counters[name] += n; r.mu.Unlock() }

// Note stores a free-form note.
func (r *Rec) Note(name string, v any) { r.mu.Lock(); r.notes[name] = v; r.mu.Unlock() }

// SetExhaustive marks the run as a complete enumeration.
func (r *Rec) SetExhaustive(b bool) { r.mu.Lock(); r.exhaustive = b; r.mu.Unlock() }

// Evals returns the evaluation count.
func (r *Rec) Evals() int64 { r.mu.Lock(); defer r.mu.Unlock(); return r.evals }

type partial struct {
	Property    string           `json:"property"`
	Shard       string           `json:"shard"`
	Evaluations int64            `json:"evaluations"`
	Nontrivial  int              `json:"nontrivial"`
	Capped      bool             `json:"nontrivial_capped"`
	Classes     map[string]int64 `json:"classes"`
	Samples     map[string][]any `json:"samples"`
	Excluded    map[string]int64 `json:"excluded_known"`
	Counters    map[string]int64 `json:"counters"`
	Notes       map[string]any   `json:"notes"`
	Exhaustive  bool             `json:"exhaustive"`
	HashFile    string           `json:"hash_file"`
}

// Flush writes <path> (json) and <path>.hashes (sorted little-endian uint64s).
func (r *Rec) Flush(path string) error {
	r.mu.Lock()
	defer r.mu.Unlock()
	hs := make([]uint64, 0, len(r.nt))
	for h := range r.nt {
		hs = append(hs, h)
	}
	sort.Slice(hs, func(i, j int) bool { return hs[i] < hs[j] })
	buf := make([]byte, 8*len(hs))
	for i, h := range hs {
		binary.LittleEndian.PutUint64(buf[8*i:], h)
	}
	if err := os.WriteFile(path+".hashes", buf, 0o644); err != nil {
		return err
	}
	p := partial{Property: r.Property, Shard: r.Shard, Evaluations: r.evals, Nontrivial: len(hs), Capped: r.ntCapped,
		Classes: r.classes, Samples: r.samples, Excluded: r.excluded, Counters: r.counters, Notes: r.notes,
		Exhaustive: r.exhaustive, HashFile: path + ".hashes"}
	b, err := json.MarshalIndent(p, "", " ")
	if err != nil {
		return err
	}
	return os.WriteFile(path, b, 0o644)
}
