#!/bin/sh
# tools/evalmut.sh <name> <patch.diff> [property ids...]
# Evaluate a seeded change in a scratch copy (a worktree of /repo with the patch applied and a copy of /verif whose
# harness is pointed at it), so that /repo itself is never modified and several changes can be evaluated in parallel.
# Prints one line per property: "<id> rc=<exit status>"; the scratch copy is removed afterwards.
name=$1; patch=$(readlink -f "$2"); shift 2
props=${*:-"C01 C02 C03 C04 C05 C06 C07 C08 C09 C10 C11 C12 C13 C14 C15 C16 C17 C18 C19 C20"}
D=/tmp/ev/$name
rm -rf "$D"; mkdir -p "$D"
git -C /repo worktree add -q --detach "$D/repo" HEAD || exit 2
(cd "$D/repo" && git apply "$patch") || { echo "patch does not apply"; git -C /repo worktree remove --force "$D/repo"; rm -rf "$D"; exit 2; }
rsync -a --exclude .work --exclude .git --include '/replays/' --include '/replays/regress/***' --exclude '/replays/*' --exclude evidence /verif/ "$D/verif/"
sed -i "s#=> /repo#=> $D/repo#" "$D/verif/harness/go.mod"
cd "$D/verif" && mkdir -p evidence replays
for p in $props; do
  VERIF_REPO="$D/repo" VERIF_JOBS=${VERIF_JOBS:-8} ./check "$p" --tier "${TIER:-quick}" --seed "${SEED:-1}" > "out.$p" 2>&1
  rc=$?
  echo "$p rc=$rc $(grep -m1 'violating case' out.$p | cut -c1-400)"
done
git -C /repo worktree remove --force "$D/repo"
rm -rf "$D"
