#!/bin/sh
# tools/evalbenign.sh [ids...]  - run all 20 quick checks against each property-preserving patch kept under
# /verif/benign/<id>/ (scratch copy and worktree as in tools/evalmut.sh; /repo is never touched).
# Expected: every line "Cnn rc=0". The output replaces benign/<id>/result.txt.
cd /verif
for id in ${*:-$(ls benign)}; do
  p=/verif/benign/$id/patch.diff
  [ -f $p ] || { echo "$id: no patch"; continue; }
  VERIF_JOBS=${VERIF_JOBS:-8} tools/evalmut.sh bn-$id $p > /tmp/bn-$id.out 2>&1
  mv /tmp/bn-$id.out benign/$id/result.txt
  echo "$id: $(grep -c 'rc=0' benign/$id/result.txt) silent; alarms: $(grep -v 'rc=0' benign/$id/result.txt | cut -c1-300 | tr '\n' ' ')"
done
