#!/bin/sh
# evaluate benign patches: all 20 quick checks in a scratch copy; expected: every rc=0
cd /verif
for id in "$@"; do
  b=$(echo $id | cut -c1-3); m=$(echo $id | cut -c4)
  p=/tmp/wt5/$b/_out/$m/patch.diff
  [ -f $p ] || { echo "$id: no patch" >> /tmp/bn/summary; continue; }
  VERIF_JOBS=8 tools/evalmut.sh bn-$id $p > /tmp/bn/$id.out 2>&1
  echo "$id: $(grep -c 'rc=0' /tmp/bn/$id.out) silent; alarms: $(grep -v 'rc=0' /tmp/bn/$id.out | cut -c1-300 | tr '\n' ' ')" >> /tmp/bn/summary
done
echo batch-done >> /tmp/bn/summary
