#!/bin/sh
# tools/matrix.sh [ids...]  - run the quick checks against every kept seeded change (3 at a time); results in
# seeded/<id>/matrix.txt. All cheap checks are always run; the four expensive ones (C06 C07 C15 C19) are run when the
# change targets one of them (or C20) or touches cmd/.
cd /verif
ids=${*:-$(ls seeded)}
for id in $ids; do
  [ -s seeded/$id/matrix.txt ] && grep -q "^C20 rc=" seeded/$id/matrix.txt && continue
  echo $id
done | xargs -P 3 -I{} sh -c '
  id={}; t=$(echo $id | cut -c1-3)
  props="C01 C02 C03 C04 C05 C08 C09 C10 C11 C12 C13 C14 C16 C17 C18 C20"
  case $t in C06|C07|C15|C19|C20) props="$props C06 C07 C15 C19";; esac
  # fourth-round changes (ids ending in E/F) were asked to hide in state shared between calls: C19 is always run for them
  case $id in *E|*F|*G|*H) props="$props C19";; esac
  if grep -q "^diff --git a/cmd/" /verif/seeded/$id/patch.diff; then props="$props C06 C07 C15"; fi
  props="$props $t"
  props=$(echo $props | tr " " "\n" | sort -u | tr "\n" " ")
  VERIF_JOBS=5 /verif/tools/evalmut.sh $id /verif/seeded/$id/patch.diff $props > /verif/seeded/$id/matrix.txt 2>&1; echo done $id'
