#!/bin/sh
# tools/matrix.sh [ids...]  - run every quick check against every kept seeded change (3 at a time), results in seeded/<id>/matrix.txt
cd /verif
ids=${*:-$(ls seeded)}
echo $ids | tr ' ' '\n' | xargs -P 3 -I{} sh -c 'VERIF_JOBS=5 /verif/tools/evalmut.sh {} /verif/seeded/{}/patch.diff > /verif/seeded/{}/matrix.txt 2>&1; echo done {}'
