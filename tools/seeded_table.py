#!/usr/bin/env python3
"""Regenerate seeded/<id>/meta.json detection fields from seeded/<id>/matrix.txt (all 20 quick checks) and print the
markdown table for DESIGN.md section 12.4."""
import json, os, re, sys
root = '/verif/seeded'
rows = []
for d in sorted(os.listdir(root)):
    mp = os.path.join(root, d, 'meta.json')
    if not os.path.exists(mp):
        continue
    meta = json.load(open(mp))
    mx = os.path.join(root, d, 'matrix.txt')
    if os.path.exists(mx):
        caught, silent, infra = [], [], []
        lines = open(mx).read().splitlines()
        for line in lines:
            m = re.match(r'(C\d\d) rc=(\d+)', line)
            if m:
                {'1': caught, '0': silent}.get(m.group(2), infra).append(m.group(1))
        meta['checks_that_report_a_violation'] = caught
        meta['checks_run_that_stay_silent'] = silent
        if infra:
            meta['checks_with_infrastructure_error'] = infra
        meta['evaluation_output'] = [l[:400] for l in lines]
        meta['what_i_ran'] = [meta['what_i_ran'][0], "tools/evalmut.sh %s patch.diff  (all 20 quick checks, seed 1, in a scratch copy of /verif pointed at a worktree of /repo with the patch applied; equivalent to git -C /repo apply + ./check + git checkout)" % d]
        json.dump(meta, open(mp, 'w'), indent=1)
    notes = meta.get('needs_to_manifest', '')
    first = ' '.join(l.strip('#* -') for l in notes.splitlines() if l.strip())[:170].replace('|', '\\|')
    rows.append((d, meta['breaks_property'], first, meta['checks_that_report_a_violation']))
print('| id | targets | change (from the author\'s notes) | caught by (quick tier) |')
print('|---|---|---|---|')
for d, p, first, caught in rows:
    print('| %s | %s | %s | %s |' % (d, p, first, ', '.join(caught) if caught else '**none**'))
n = len(rows); c = sum(1 for r in rows if r[3])
print('\n%d kept changes, %d caught by at least one check, %d by the check of the targeted property.' % (n, c, sum(1 for r in rows if r[1] in r[3])))
