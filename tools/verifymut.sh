#!/bin/sh
# tools/verifymut.sh <name> <dir containing patch.diff and demo_test.go>
# Confirms in a scratch worktree of /repo that the seeded change (1) applies and builds, (2) keeps the unedited
# suite green, (3) makes the demonstration fail, and (4) that the demonstration passes without the change.
name=$1; src=$(readlink -f "$2")
export GOFLAGS=-mod=mod GOPROXY=off GOTOOLCHAIN=auto GONOSUMDB='*'
D=/tmp/evv/$name
rm -rf "$D"; mkdir -p /tmp/evv
git -C /repo worktree add -q --detach "$D" HEAD || exit 2
cd "$D" && mkdir -p demo && cp "$src/demo_test.go" demo/demo_test.go
res="name=$name"
if go test -count=1 ./demo/ >/tmp/evv/$name.clean.log 2>&1; then res="$res demo_on_clean=PASS"; else res="$res demo_on_clean=FAIL"; fi
if git apply "$src/patch.diff" 2>/tmp/evv/$name.apply.log; then res="$res apply=ok"; else res="$res apply=FAILED"; fi
if go build ./... >/tmp/evv/$name.build.log 2>&1 && go vet ./pkg/... ./cmd/... >>/tmp/evv/$name.build.log 2>&1; then res="$res build=ok"; else res="$res build=FAILED"; fi
if go test -count=1 ./pkg/... ./cmd/... >/tmp/evv/$name.suite.log 2>&1; then res="$res suite=PASS"; else res="$res suite=FAIL"; fi
if go test -count=1 ./demo/ >/tmp/evv/$name.mut.log 2>&1; then res="$res demo_on_mutant=PASS"; else res="$res demo_on_mutant=FAIL"; fi
echo "$res"
cd /; git -C /repo worktree remove --force "$D"
