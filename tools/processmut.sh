#!/bin/sh
# tools/processmut.sh <PROP> <A|B> [extra property ids to evaluate]
# verify a sub-agent's seeded change, evaluate it with the targeted check (+ extras), and keep it under /verif/seeded.
P=$1; M=$2; shift 2
src=${WT:-/tmp/wt}/$P/_out/$M
id=$P$M
# second-round changes (WT=/tmp/wt2) are kept as <P>C and <P>D
# fourth-round (adversarial) changes (WT=/tmp/wt4) are kept as <P>E and <P>F
case "${WT:-/tmp/wt}" in
/tmp/wt) ;;
/tmp/wt4) case $M in A) id=${P}E;; B) id=${P}F;; esac;;
/tmp/wt6) case $M in A) id=${P}G;; B) id=${P}H;; esac;;  # fifth round: the authors were given the harness design
*) case $M in A) id=${P}C;; B) id=${P}D;; esac;;
esac
[ -f "$src/patch.diff" ] || { echo "$id: no patch"; exit 1; }
v=$(/verif/tools/verifymut.sh $id $src)
echo "$v"
case "$v" in *"demo_on_clean=PASS apply=ok build=ok suite=PASS demo_on_mutant=FAIL"*) ;; *) echo "$id: NOT KEPT (verification failed)"; exit 1;; esac
ev=$(/verif/tools/evalmut.sh $id $src/patch.diff $P "$@" 2>&1)
echo "$ev" | cut -c1-300
mkdir -p /verif/seeded/$id
cp $src/patch.diff /verif/seeded/$id/patch.diff
cp $src/demo_test.go /verif/seeded/$id/demo_test.go
[ -f $src/meta.md ] && cp $src/meta.md /verif/seeded/$id/notes.md
python3 - "$id" "$P" "$v" "$ev" <<'PY'
import json,sys,re
id_,prop,v,ev=sys.argv[1:5]
caught=[]; missed=[]
for line in ev.splitlines():
    m=re.match(r'(C\d\d) rc=(\d+)',line)
    if m:
        (caught if m.group(2)=='1' else missed).append(m.group(1))
notes=''
try: notes=open('/verif/seeded/%s/notes.md'%id_).read()
except Exception: pass
meta={"id":id_,"breaks_property":prop,
 "source":"written by an independent sub-agent that saw only the property text and a scratch worktree of /repo",
 "needs_to_manifest":notes.strip(),
 "what_i_ran":["tools/verifymut.sh %s <dir>  (scratch worktree: demo passes on the unchanged tree; patch applies, builds, go vet clean; unedited suite passes; demo fails with the patch)"%id_,
               "tools/evalmut.sh %s patch.diff %s ...  (scratch copy of /verif pointed at the patched worktree, quick tier, seed 1)"%(id_,' '.join(caught+missed))],
 "verification":v,
 "checks_that_report_a_violation":caught,"checks_run_that_stay_silent":missed,
 "evaluation_output":ev.splitlines()}
json.dump(meta,open('/verif/seeded/%s/meta.json'%id_,'w'),indent=1)
print(id_,"caught by",caught,"silent",missed)
PY
