#!/bin/sh
# Offline warm-up: build the harness test binaries and the CLI from files on disk.
set -e
cd "$(dirname "$0")"
export GOFLAGS=-mod=mod GOPROXY=off GOTOOLCHAIN=auto GONOSUMDB='*'
unset GOSUMDB
mkdir -p .work/bin evidence replays
(cd harness && go test -c -o ../.work/bin/props.test ./props)
(cd harness && go test -c -race -o ../.work/bin/props.race.test ./props)
(cd /repo && go build -o /verif/.work/bin/univers ./cmd)
echo setup ok
